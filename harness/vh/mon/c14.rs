//! C14 — timeouts bound execution and surface as failures.
//!
//! (A) decision monitor: `timeout_decision` hook events of documents with fast commands under
//!     random per-test / document limits. Purely logical: the remaining document time at the
//!     moment of the decision lies between the value sampled right after it (`doc_remaining_ms`)
//!     and the value sampled at the previous decision minus the time the previous command slept;
//!     the chosen limit must be the minimum, `is_global` must name the document limit iff it won.
//! (B) real-time matrix at the process boundary: per-test limit x document limit x position of the
//!     slow command x format; verdicts from the reported kinds, the exit status and the marker
//!     log; the clock only separates 1 s from 8 s.

use std::time::Duration;

use serde::Deserialize;
use serde::Serialize;
use serde_json::json;
use serde_json::Value;

use super::seqcommon::*;
use crate::core::*;
use crate::e2e::Sandbox;
use crate::oracle::seqmodel::*;
use crate::rng::hash_str;
use crate::rng::Rng;

pub struct C14;

#[derive(Clone, Copy, Debug, PartialEq, Serialize, Deserialize)]
pub enum PerTest {
    Absent,
    Ms300,
    S30,
}

#[derive(Clone, Copy, Debug, PartialEq, Serialize, Deserialize)]
pub enum DocLimit {
    Default,
    ZeroFrontMatter,
    ZeroCli,
    FrontMatter1s,
    Cli1s,
}

#[derive(Clone, Debug, Serialize, Deserialize)]
pub struct Matrix {
    pub format: Format,
    pub per_test: PerTest,
    pub doc: DocLimit,
    /// number of test cases and position of the one that carries the per-test limit / the sleep
    pub n: usize,
    pub pos: usize,
    /// `sleep 8` (true) or an instantaneous command
    pub slow: bool,
    /// the test case at `pos` carries `wait: 2s` under a 1 s document limit: the budget runs out
    /// between two test cases (instantaneous commands, at least one test case follows)
    #[serde(default)]
    pub wait: bool,
    /// the slow command ignores (1) or traps (2) SIGTERM before it sleeps
    #[serde(default)]
    pub trap_term: u8,
    /// an unreachable `skip_document_code` (-1, -100, -255, 256: "skipping switched off"), from
    /// the front-matter defaults or inline on every test case; Markdown only. A timeout must be
    /// reported as a timeout all the same
    #[serde(default)]
    pub skip_code: Option<i32>,
    #[serde(default)]
    pub skip_inline: bool,
    /// rows with `wait: {timeout, path}` under a 20 s document limit (three test cases, the second
    /// one waits): 1 = the path exists before (wait 30 s), 2 = a detached first test case creates
    /// it after 0.3 s (wait 30 s), 3 = it never appears (wait 2 s). The document passes and scrut
    /// returns at once (1, 2) / after the 2 s (3)
    #[serde(default)]
    pub wait_path: u8,
}

#[derive(Clone, Debug, Serialize, Deserialize)]
pub struct DecTest {
    pub per_test_ms: Option<u64>,
    pub sleep_ms: u64,
}

#[derive(Clone, Debug, Serialize, Deserialize)]
pub struct DecDoc {
    /// front-matter `total_timeout` in ms
    pub fm_total_ms: Option<u64>,
    pub tests: Vec<DecTest>,
}

#[derive(Clone, Debug, Serialize, Deserialize)]
pub struct Decision {
    pub docs: Vec<DecDoc>,
    pub cli_timeout_s: Option<u64>,
}

#[derive(Clone, Debug, Serialize, Deserialize)]
pub enum Case {
    Matrix(Matrix),
    Decision(Decision),
}

const SLOW_MS: u64 = 8000;

impl Matrix {
    fn per_ms(&self) -> Option<u64> {
        match self.per_test {
            PerTest::Absent => None,
            PerTest::Ms300 => Some(300),
            PerTest::S30 => Some(30_000),
        }
    }
    fn doc_ms(&self) -> Option<u64> {
        match self.doc {
            DocLimit::Default => Some(DEFAULT_DOC_LIMIT_MS),
            DocLimit::ZeroFrontMatter | DocLimit::ZeroCli => None,
            DocLimit::FrontMatter1s | DocLimit::Cli1s => Some(1000),
        }
    }
    /// structural relation of the two limits
    fn relation(&self) -> &'static str {
        match (self.per_ms(), self.doc_ms()) {
            (None, None) => "no-limit",
            (None, Some(d)) => {
                if d < SLOW_MS {
                    "document-limit-only"
                } else {
                    "default-document-limit"
                }
            }
            (Some(_), None) => "per-test-only",
            (Some(p), Some(d)) => {
                if p < d {
                    "per-test-shorter"
                } else {
                    "per-test-longer"
                }
            }
        }
    }
    fn valid(&self) -> bool {
        if self.n == 0 || self.pos >= self.n {
            return false;
        }
        if self.skip_code.is_some() && self.format == Format::Cram {
            return false;
        }
        if self.wait_path != 0 {
            return self.wait_path <= 3 && self.format == Format::Markdown && self.per_test == PerTest::Absent && self.doc == DocLimit::Default && !self.slow && !self.wait;
        }
        if self.wait {
            return self.format == Format::Markdown
                && self.per_test == PerTest::Absent
                && matches!(self.doc, DocLimit::FrontMatter1s | DocLimit::Cli1s)
                && !self.slow;
        }
        if self.format == Format::Cram && (self.per_test != PerTest::Absent || matches!(self.doc, DocLimit::ZeroFrontMatter | DocLimit::FrontMatter1s)) {
            return false;
        }
        let min = match (self.per_ms(), self.doc_ms()) {
            (Some(a), Some(b)) => Some(a.min(b)),
            (a, b) => a.or(b),
        };
        if self.slow {
            // only rows in which the smallest limit is far below the sleep
            min.is_some_and(|m| m * 8 <= SLOW_MS)
        } else {
            // "never reported as timed out" only where nothing can exceed a limit
            min.is_none_or(|m| m >= 20_000)
        }
    }
    fn to_run(&self) -> RunSpec {
        if self.wait_path != 0 {
            let mut t0 = TestSpec::pass("m0");
            let mut t1 = TestSpec::pass("m1");
            t1.wait_path = Some("ready".into());
            match self.wait_path {
                1 => {
                    t0.extra = "touch \"$TMPDIR/ready\"".into();
                    t1.wait_ms = Some(30_000);
                    t1.wait_path_appears = true;
                }
                2 => {
                    t0.detached = true;
                    t0.extra = "sleep 0.3; touch \"$TMPDIR/ready\"".into();
                    t1.wait_ms = Some(30_000);
                    t1.wait_path_appears = true;
                }
                _ => t1.wait_ms = Some(2000),
            }
            let mut doc = DocSpec::new("m.md", Format::Markdown, vec![t0, t1, TestSpec::pass("m2")]);
            // the limit from the front-matter or from the command line
            let cli = if self.n % 2 == 0 { Some(20) } else { None };
            if cli.is_none() {
                doc.total_timeout_ms = Some(20_000);
            }
            return RunSpec {
                args: vec![doc.name.clone()],
                docs: vec![doc],
                aux: vec![],
                cli_prepend: vec![],
                cli_append: vec![],
                cli_timeout_s: cli,
                cram_compat: false,
            };
        }
        let ext = if self.format == Format::Markdown { "md" } else { "t" };
        let tests: Vec<TestSpec> = (0..self.n)
            .map(|j| {
                let mut t = TestSpec::pass(&format!("m{j}"));
                if j == self.pos {
                    t.timeout_ms = self.per_ms();
                    if self.slow {
                        t.sleep_ms = SLOW_MS;
                        t.trap_term = self.trap_term;
                    }
                    if self.wait {
                        // a waiting test case in the last position waits "for ever": the document limit
                        // bounds the wait itself
                        t.wait_ms = Some(if self.pos + 1 == self.n { 20_000 } else { 2000 });
                    }
                }
                t
            })
            .collect();
        let mut tests = tests;
        if self.skip_inline {
            for t in tests.iter_mut() {
                t.skip_code = self.skip_code;
            }
        }
        let mut doc = DocSpec::new(&format!("m.{ext}"), self.format, tests);
        if !self.skip_inline {
            doc.skip_code = self.skip_code;
        }
        let mut cli = None;
        match self.doc {
            DocLimit::Default => {}
            DocLimit::ZeroFrontMatter => doc.total_timeout_ms = Some(0),
            DocLimit::FrontMatter1s => doc.total_timeout_ms = Some(1000),
            DocLimit::ZeroCli => cli = Some(0),
            DocLimit::Cli1s => cli = Some(1),
        }
        RunSpec {
            args: vec![doc.name.clone()],
            docs: vec![doc],
            aux: vec![],
            cli_prepend: vec![],
            cli_append: vec![],
            cli_timeout_s: cli,
            cram_compat: false,
        }
    }
}

impl Decision {
    fn to_run(&self) -> RunSpec {
        let docs: Vec<DocSpec> = self
            .docs
            .iter()
            .enumerate()
            .map(|(d, dd)| {
                let tests = dd
                    .tests
                    .iter()
                    .enumerate()
                    .map(|(j, t)| {
                        let mut s = TestSpec::pass(&format!("a{d}t{j}"));
                        s.timeout_ms = t.per_test_ms;
                        s.sleep_ms = t.sleep_ms;
                        s
                    })
                    .collect();
                let mut doc = DocSpec::new(&format!("a{d}.md"), Format::Markdown, tests);
                doc.total_timeout_ms = dd.fm_total_ms;
                doc
            })
            .collect();
        RunSpec {
            args: docs.iter().map(|d| d.name.clone()).collect(),
            docs,
            aux: vec![],
            cli_prepend: vec![],
            cli_append: vec![],
            cli_timeout_s: self.cli_timeout_s,
            cram_compat: false,
        }
    }
}

// ---------------------------------------------------------------------------------------------
// generation

/// the slow rows: (per-test, document limit) with a smallest limit <= 1 s
const SLOW_ROWS: [(PerTest, DocLimit); 10] = [
    (PerTest::S30, DocLimit::FrontMatter1s),
    (PerTest::S30, DocLimit::Cli1s),
    (PerTest::Absent, DocLimit::FrontMatter1s),
    (PerTest::Absent, DocLimit::Cli1s),
    (PerTest::Ms300, DocLimit::Default),
    (PerTest::Ms300, DocLimit::ZeroFrontMatter),
    (PerTest::Ms300, DocLimit::FrontMatter1s),
    (PerTest::Ms300, DocLimit::Cli1s),
    (PerTest::Ms300, DocLimit::ZeroCli),
    (PerTest::Absent, DocLimit::Cli1s), // Cram
];

const CALM_ROWS: [(PerTest, DocLimit); 5] = [
    (PerTest::Absent, DocLimit::Default),
    (PerTest::S30, DocLimit::ZeroFrontMatter),
    (PerTest::Absent, DocLimit::ZeroCli), // Cram
    (PerTest::S30, DocLimit::Default),
    (PerTest::Absent, DocLimit::ZeroCli),
];

fn n_matrix(tier: Tier) -> u64 {
    tier.pick(27, 96)
}

fn gen_matrix(k: u64, rng: &mut Rng) -> Matrix {
    // four out of five cases are slow rows; rows are visited round robin so that every seed
    // covers each of them, position and size are random
    let n = 1 + rng.weighted(&[1, 2, 4, 2]);
    let pos = match rng.below(3) {
        0 => 0,
        1 => n / 2,
        _ => n - 1,
    };
    if (24..=26).contains(&(k % 32)) {
        // rows with a wait for a path
        return Matrix {
            format: Format::Markdown,
            per_test: PerTest::Absent,
            doc: DocLimit::Default,
            n,
            pos: 0,
            slow: false,
            wait: false,
            trap_term: 0,
            skip_code: None,
            skip_inline: false,
            wait_path: (k % 32 - 23) as u8,
        };
    }
    if k % 12 == 11 {
        let n = n.max(2);
        return Matrix {
            format: Format::Markdown,
            per_test: PerTest::Absent,
            doc: if (k / 12) % 2 == 0 { DocLimit::FrontMatter1s } else { DocLimit::Cli1s },
            n,
            // every other wait row has the waiting test case last: nothing after it can show the
            // exhausted budget, the test case itself has to
            pos: if (k / 12) % 2 == 1 { n - 1 } else { pos.min(n - 2) },
            slow: false,
            wait: true,
            trap_term: 0,
            skip_code: if (k / 12) % 2 == 1 { Some(-1) } else { None },
            skip_inline: false,
            wait_path: 0,
        };
    }
    if k % 6 == 5 {
        let i = ((k / 6) % CALM_ROWS.len() as u64) as usize;
        let (p, d) = CALM_ROWS[i];
        Matrix {
            format: if i == 2 { Format::Cram } else { Format::Markdown },
            per_test: p,
            doc: d,
            n,
            pos,
            slow: false,
            wait: false,
            trap_term: 0,
            skip_code: None,
            skip_inline: false,
            wait_path: 0,
        }
    } else {
        let j = k - k / 6;
        let i = (j % SLOW_ROWS.len() as u64) as usize;
        let (p, d) = SLOW_ROWS[i];
        // plain, TERM-ignoring, TERM-trapping, stream-closing and stream-redirecting commands rotate over the rows, shifted by one on
        // every pass so that each row meets each kind
        let trap_term = ((j + j / SLOW_ROWS.len() as u64) % 5) as u8;
        // two rows out of five run with an unreachable skip code
        let (skip_code, skip_inline) = if i == 9 {
            (None, false)
        } else {
            match j % 5 {
                1 => (Some(-1), false),
                2 => (Some(-1), true),
                4 => (Some([-100, -255, 256][((j / 5) % 3) as usize]), (j / 5) % 2 == 1),
                _ => (None, false),
            }
        };
        Matrix {
            format: if i == 9 { Format::Cram } else { Format::Markdown },
            per_test: p,
            doc: d,
            n,
            pos,
            slow: true,
            wait: false,
            trap_term,
            skip_code,
            skip_inline,
            wait_path: 0,
        }
    }
}

const PER_TEST_MS: [u64; 7] = [50, 300, 2_000, 10_000, 60_000, 600_000, 3_600_000];
const FM_TOTAL_MS: [u64; 7] = [0, 200, 1_000, 5_000, 30_000, 900_000, 3_600_000];
const CLI_S: [u64; 5] = [0, 1, 5, 30, 3_600];

fn gen_decision(rng: &mut Rng) -> Decision {
    let cli_timeout_s = if rng.chance(1, 4) { Some(*rng.pick(&CLI_S)) } else { None };
    let n_docs = 1 + rng.weighted(&[2, 2, 1]);
    let docs = (0..n_docs)
        .map(|_| {
            let fm_total_ms = if rng.chance(3, 5) { Some(*rng.pick(&FM_TOTAL_MS)) } else { None };
            let limit = match cli_timeout_s {
                Some(s) => s * 1000,
                None => fm_total_ms.unwrap_or(DEFAULT_DOC_LIMIT_MS),
            };
            let n = 1 + rng.weighted(&[1, 2, 3, 2, 1]);
            let tests = (0..n)
                .map(|_| {
                    let per_test_ms = match rng.weighted(&[4, 5, 1, 1]) {
                        0 => None,
                        1 => Some(*rng.pick(&PER_TEST_MS)),
                        2 if limit > 0 => Some(limit), // exact tie
                        2 => Some(1_000),
                        _ => Some(if limit > 2 { limit + 1 } else { 1_001 }), // just above
                    };
                    let sleep_ms = if rng.bool() { 0 } else { 20 + rng.below(60) as u64 };
                    DecTest { per_test_ms, sleep_ms }
                })
                .collect();
            DecDoc { fm_total_ms, tests }
        })
        .collect();
    Decision { docs, cli_timeout_s }
}

// ---------------------------------------------------------------------------------------------
// (A) oracle over the hook events

struct Dec {
    index: usize,
    per: Option<u64>,
    limit: u64,
    remaining: Option<u64>,
    chosen: Option<u64>,
    is_global: bool,
    /// the command of this decision ran to its end (exec_end with a numeric status)
    completed: bool,
}

fn opt_u64(v: &Value) -> Option<u64> {
    v.as_u64()
}

/// decisions per document (segments start at `env_new`)
fn decisions(trace: &[Value]) -> Result<Vec<Vec<Dec>>, String> {
    let mut docs: Vec<Vec<Dec>> = vec![];
    for e in trace {
        let d = &e["data"];
        match e["kind"].as_str() {
            Some("env_new") => docs.push(vec![]),
            Some("timeout_decision") => {
                let Some(cur) = docs.last_mut() else {
                    return Err("timeout_decision before env_new".into());
                };
                let (Some(index), Some(limit), Some(is_global)) = (d["index"].as_u64(), d["doc_limit_ms"].as_u64(), d["is_global"].as_bool()) else {
                    return Err(format!("malformed timeout_decision event {e}"));
                };
                cur.push(Dec {
                    index: index as usize,
                    per: opt_u64(&d["per_test_ms"]),
                    limit,
                    remaining: opt_u64(&d["doc_remaining_ms"]),
                    chosen: opt_u64(&d["chosen_ms"]),
                    is_global,
                    completed: false,
                });
            }
            Some("exec_end") => {
                if let Some(last) = docs.last_mut().and_then(|c| c.last_mut()) {
                    if d["index"].as_u64() == Some(last.index as u64) {
                        last.completed = d["status"].as_str().is_some_and(|s| s.parse::<i64>().is_ok());
                    }
                }
            }
            _ => {}
        }
    }
    Ok(docs)
}

fn judge_decisions(case: &Decision, trace: &[Value]) -> Result<(Vec<Finding>, Vec<String>, u64, bool), String> {
    let docs = decisions(trace)?;
    if docs.len() != case.docs.len() {
        return Err(format!("{} env_new events for {} documents", docs.len(), case.docs.len()));
    }
    let mut findings: Vec<Finding> = vec![];
    let mut buckets: Vec<String> = vec![];
    let mut shape = String::new();
    let mut nontrivial = false;
    let mut total = 0;
    let f = |clause: &str, cause: String, detail: String| Finding {
        clause: clause.into(),
        cause,
        detail,
    };
    for (di, (spec, decs)) in case.docs.iter().zip(docs.iter()).enumerate() {
        // the limit in force: the command line overrides the front-matter (documented precedence,
        // C16); judged here only when there is a single source
        let (expected_limit, source) = match (case.cli_timeout_s, spec.fm_total_ms) {
            (Some(s), None) => (Some(s * 1000), "cli"),
            (None, Some(m)) => (Some(m), "front-matter"),
            (None, None) => (Some(DEFAULT_DOC_LIMIT_MS), "default"),
            (Some(_), Some(_)) => (None, "both"),
        };
        buckets.push(format!("A:limit-source={source}"));
        let mut prev: Option<&Dec> = None;
        for (pi, dec) in decs.iter().enumerate() {
            total += 1;
            let ctx = format!("document {di} decision {pi}: per_test={:?} limit={} remaining={:?} chosen={:?} is_global={}", dec.per, dec.limit, dec.remaining, dec.chosen, dec.is_global);
            if dec.index != pi || dec.index >= spec.tests.len() {
                return Err(format!("{ctx}: unexpected index {}", dec.index));
            }
            let t = &spec.tests[dec.index];
            // configured limits are the ones in force
            if dec.per != t.per_test_ms {
                findings.push(f(
                    "decision-per-test-limit",
                    format!("configured={}/in-force={}", if t.per_test_ms.is_some() { "some" } else { "none" }, if dec.per.is_some() { "some" } else { "none" }),
                    format!("{ctx}: the document configures {:?}", t.per_test_ms),
                ));
                continue;
            }
            if let Some(el) = expected_limit {
                if dec.limit != el {
                    findings.push(f("decision-document-limit", format!("source={source}"), format!("{ctx}: the configured document limit is {el} ms")));
                    continue;
                }
            }
            // remaining document time: absent iff unlimited, never above the limit, shrinking by
            // at least what the previous command slept
            if dec.limit == 0 {
                if dec.remaining.is_some() {
                    findings.push(f("decision-remaining", "present-although-unlimited".into(), ctx.clone()));
                    continue;
                }
            } else if dec.remaining.is_none() {
                findings.push(f("decision-remaining", "absent-although-limited".into(), ctx.clone()));
                continue;
            }
            let hi: Option<u64> = dec.remaining.map(|_| match prev {
                Some(p) if p.completed => p.remaining.unwrap_or(dec.limit).saturating_sub(spec.tests[p.index].sleep_ms).min(dec.limit),
                Some(p) => p.remaining.unwrap_or(dec.limit).min(dec.limit),
                None => dec.limit,
            });
            if let (Some(r), Some(h)) = (dec.remaining, hi) {
                if r > h {
                    let cause = if r > dec.limit {
                        "above-limit"
                    } else if prev.is_some_and(|p| p.remaining.is_some_and(|pr| r > pr)) {
                        "increasing"
                    } else {
                        "not-shrinking-by-elapsed-time"
                    };
                    findings.push(f("decision-remaining", cause.into(), format!("{ctx}: at most {h} ms can remain (previous decision {:?}, previous command slept {} ms)", prev.and_then(|p| p.remaining), prev.map(|p| spec.tests[p.index].sleep_ms).unwrap_or(0))));
                    continue;
                }
            }
            // the minimum. True remaining time at the decision lies in [lo, hi].
            let lo = dec.remaining;
            #[derive(PartialEq, Debug)]
            enum W {
                None,
                Per,
                Doc,
                Either,
            }
            let want = match (dec.per, lo, hi) {
                (None, None, _) => W::None,
                (Some(_), None, _) => W::Per,
                (None, Some(_), _) => W::Doc,
                (Some(p), Some(l), Some(h)) => {
                    if p < l {
                        W::Per
                    } else if p > h {
                        W::Doc
                    } else {
                        W::Either
                    }
                }
                _ => W::Either,
            };
            let is_per = dec.per.is_some() && dec.chosen == dec.per;
            let is_doc = match (dec.chosen, lo, hi) {
                (Some(c), Some(l), Some(h)) => c >= l && c <= h,
                _ => false,
            };
            let rel = match (dec.per, dec.remaining) {
                (Some(p), Some(r)) => {
                    if p < r {
                        "per-test-shorter"
                    } else {
                        "per-test-longer"
                    }
                }
                (Some(_), None) => "per-test-only",
                (None, Some(_)) => "document-only",
                (None, None) => "no-limit",
            };
            shape.push_str(&format!("{rel}{:?}{};", dec.per, dec.limit));
            buckets.push(format!("A:winner={}", format!("{want:?}").to_lowercase()));
            if dec.per.is_some() && dec.remaining.is_some() {
                nontrivial = true;
            }
            match want {
                W::None => {
                    if dec.chosen.is_some() {
                        findings.push(f("limit-not-min", "limit-without-configuration".into(), ctx.clone()));
                    } else if dec.is_global {
                        findings.push(f("decision-is-global", "expected=false/no-limit".into(), ctx.clone()));
                    }
                }
                W::Per => {
                    if !is_per {
                        findings.push(f("limit-not-min", if is_doc { "chose=document".into() } else { format!("chose=neither/{rel}") }, format!("{ctx}: the per-test limit is the smaller one")));
                    } else if dec.is_global {
                        findings.push(f("decision-is-global", "expected=false/per-test-limit-won".into(), ctx.clone()));
                    }
                }
                W::Doc => {
                    if !is_doc {
                        findings.push(f(
                            "limit-not-min",
                            if is_per { "chose=per-test".into() } else { format!("chose=neither/{rel}") },
                            format!("{ctx}: the remaining document time (between {lo:?} and {hi:?} ms) is the smaller one"),
                        ));
                    } else if !dec.is_global {
                        findings.push(f("decision-is-global", "expected=true/document-limit-won".into(), ctx.clone()));
                    }
                }
                W::Either => {
                    buckets.push("A:near-miss-tie".into());
                    let ok = (is_per && !dec.is_global) || (is_doc && dec.is_global) || (is_per && is_doc);
                    if !ok {
                        findings.push(f("limit-not-min", format!("tie/chose={}", if is_per { "per-test" } else if is_doc { "document" } else { "neither" }), ctx.clone()));
                    }
                }
            }
            prev = Some(dec);
        }
    }
    Ok((findings, buckets, hash_str(&shape), nontrivial && total > 0))
}

// ---------------------------------------------------------------------------------------------

impl C14 {
    fn check_decision(&self, env: &Env, case: &Decision) -> Checked {
        let run = case.to_run();
        let sb = Sandbox::new(env, "c14a");
        let obs = drive(env, &sb, &run, Duration::from_secs(90), Duration::ZERO, &|_m: &[String]| false);
        if obs.proc.watchdog_fired {
            return Checked::inconclusive("watchdog fired");
        }
        if !matches!(obs.proc.code, Some(0) | Some(50)) {
            return Checked::inconclusive(format!("scrut exited with {:?}: {}", obs.proc.code, tail(&obs.proc.stderr_str())));
        }
        if !obs.trace.iter().any(|e| e["kind"] == json!("timeout_decision")) {
            return Checked::inconclusive("no timeout_decision events (hooks not compiled in?)");
        }
        match judge_decisions(case, &obs.trace) {
            Err(e) => Checked::inconclusive(format!("trace: {e}")),
            Ok((findings, buckets, shape, nontrivial)) => {
                let mut c = match findings.first() {
                    Some(f) => Checked::violated(f.sig("C14"), f.detail.clone()),
                    None => Checked::held(),
                };
                c = c.shape(nontrivial, shape).bucket("A:documents");
                for b in buckets {
                    c = c.bucket(b);
                }
                c
            }
        }
    }

    fn check_matrix(&self, env: &Env, case: &Matrix) -> Checked {
        if !case.valid() {
            return Checked::out_of_scope("row outside of the judged matrix");
        }
        let run = case.to_run();
        let model = match model_run(&run) {
            Ok(m) => m,
            Err(e) => return Checked::out_of_scope(e),
        };
        let expect_timeout = matches!(model.docs[0].end, DocEnd::TimedOut { .. });
        if expect_timeout != (case.slow || case.wait) {
            return Checked::inconclusive("model and matrix row disagree");
        }
        let sb = Sandbox::new(env, "c14b");
        let late = format!("m{}-late", case.pos);
        // a command that was merely abandoned writes its late marker 8 s after it started, i.e.
        // at most 8 s after scrut returned
        let settle = if case.slow { Duration::from_millis(SLOW_MS + 2500) } else { Duration::ZERO };
        let obs = drive(env, &sb, &run, Duration::from_secs(40), settle, &|m: &[String]| !m.contains(&late));
        let j = judge(
            &run,
            &model,
            &obs,
            Clauses {
                markers: false,
                results: true,
                exit: true,
            },
        );
        if let Some(r) = j.inconclusive {
            return Checked::inconclusive(r);
        }
        let rel = case.relation();
        let fmt = if case.format == Format::Markdown { "markdown" } else { "cram" };
        let mut buckets = j.buckets.clone();
        buckets.push(format!("B:{}:{rel}:{fmt}", if case.slow { "slow" } else if case.wait { "wait" } else if case.wait_path != 0 { "wait-path" } else { "calm" }));
        let wp = match case.wait_path {
            1 => "/wait-path=exists-before",
            2 => "/wait-path=created-during-the-wait",
            3 => "/wait-path=never-appears",
            _ => "",
        };
        if case.wait_path != 0 {
            buckets.push("B:wait-path".into());
        }
        // a command that ignores or traps SIGTERM must be aborted like any other
        let term = match case.trap_term {
            1 => "/sigterm-ignored",
            2 => "/sigterm-trapped",
            // ... and so must one that has closed or redirected its output streams
            3 => "/streams-closed",
            4 => "/streams-to-dev-null",
            _ => "",
        };
        if case.skip_code.is_some() {
            buckets.push("B:unreachable-skip-code".into());
        }
        if case.slow {
            buckets.push(format!("B:slow-command{}", if term.is_empty() { "/plain" } else { term }));
        }
        buckets.push(format!("B:position={}", if case.pos == 0 { "first" } else if case.pos + 1 == case.n { "last" } else { "middle" }));
        let mut verdict: Option<(String, String)> = None;
        if let Some(f) = j.findings.first() {
            // the relation of the two limits is the structural cause only when the slow test case
            // itself was not reported as timed out
            let sig = if f.clause == "result-kind" && f.cause.contains("expected=timeout/got=pass") {
                format!("C14/{}/{}/{rel}{}", f.clause, f.cause, if case.trap_term >= 3 { term } else { "" })
            } else if case.trap_term >= 3 && f.clause == "exit-status" {
                format!("C14/{}/{}/{fmt}{term}", f.clause, f.cause)
            } else if case.trap_term >= 3 && f.clause == "result-kind" && f.cause.ends_with("/timed-out") {
                // the slow command itself is not reported as timed out: how it escaped the limit
                format!("C14/{}/{}{term}", f.clause, f.cause)
            } else {
                format!("C14/{}/{}{wp}", f.clause, f.cause)
            };
            verdict = Some((sig, f.detail.clone()));
        }
        if verdict.is_none() && case.wait_path != 0 {
            let wall = obs.proc.wall;
            if wall >= Duration::from_millis(SLOW_MS) {
                verdict = Some((
                    format!("C14/not-bounded/{fmt}{wp}"),
                    format!("scrut returned after {wall:?} although the wait should have ended {}", if case.wait_path == 3 { "after its 2 s timeout" } else { "as soon as the path existed" }),
                ));
            }
        }
        if verdict.is_none() && case.slow && case.format == Format::Markdown {
            // the report names a limit (`timeout[300ms]`): it must not be the configured limit
            // that was *not* reached (the statement speaks of the limit reached first)
            let not_reached: Option<u64> = match (case.per_ms(), case.doc_ms()) {
                (Some(p), Some(d)) if p * 8 <= d => Some(d),
                (Some(p), Some(d)) if d * 8 <= p => Some(p),
                _ => None,
            };
            let named: Option<u64> = obs.proc.json().ok().and_then(|arr| {
                arr.iter()
                    .find(|o| o["testcase"]["title"].as_str() == Some(&format!("m{}", case.pos)))
                    .and_then(|o| o["output"]["exit_code"].as_str().map(|s| s.to_string()))
                    .and_then(|s| s.strip_prefix("timeout[").and_then(|r| r.strip_suffix("ms]")).and_then(|n| n.parse::<u64>().ok()))
            });
            match (named, not_reached) {
                (Some(n), Some(o)) if n == o => {
                    verdict = Some((
                        format!("C14/reported-limit/names-the-limit-not-reached/{rel}"),
                        format!("the timed-out test case is reported with timeout[{n}ms], which is the configured limit that was not reached (per-test {:?} ms, document {:?} ms)", case.per_ms(), case.doc_ms()),
                    ));
                }
                (Some(_), _) => buckets.push("B:reported-limit-read".into()),
                _ => {}
            }
        }
        if verdict.is_none() && case.slow {
            let wall = obs.proc.wall;
            buckets.push(format!("B:returned-after-s={}", wall.as_secs().min(9)));
            if wall >= Duration::from_millis(SLOW_MS) {
                verdict = Some((
                    format!("C14/not-bounded/{fmt}{term}"),
                    format!("scrut returned after {wall:?}: it waited for the 8 s command although the smallest limit is <= 1 s"),
                ));
            } else if wall >= Duration::from_secs(6) {
                return Checked::inconclusive(format!("scrut returned after {wall:?}: neither clearly bounded (< 6 s) nor clearly unbounded (>= 8 s)"));
            }
        }
        if verdict.is_none() && case.wait && case.pos + 1 == case.n {
            let wall = obs.proc.wall;
            buckets.push(format!("B:wait-returned-after-s={}", wall.as_secs().min(9)));
            if wall >= Duration::from_millis(SLOW_MS) {
                verdict = Some((
                    format!("C14/not-bounded/{fmt}/wait"),
                    format!("scrut returned after {wall:?}: it sat out a 20 s `wait` although the document limit is 1 s"),
                ));
            } else if wall >= Duration::from_secs(6) {
                return Checked::inconclusive(format!("scrut returned after {wall:?}: neither clearly bounded (< 6 s) nor clearly unbounded (>= 8 s)"));
            }
        }
        if verdict.is_none() && case.slow && obs.markers.contains(&late) {
            verdict = Some((
                format!("C14/not-aborted/{fmt}{term}"),
                format!("the timed-out command kept running: it wrote its second marker 8 s after it started; markers: {:?}", obs.markers),
            ));
        }
        if verdict.is_none() && case.slow && case.per_test != PerTest::Ms300 {
            // the document limit struck: the document stops executing
            let later: Vec<&String> = obs.markers.iter().filter(|m| (case.pos + 1..case.n).any(|j| **m == format!("m{j}"))).collect();
            if !later.is_empty() {
                verdict = Some((
                    format!("C14/document-not-stopped/{fmt}"),
                    format!("test cases after the one that exhausted the document limit were executed: {later:?}"),
                ));
            }
        }
        // the slow command never got as far as its first marker (limit struck earlier, loaded
        // machine): nothing was observed about aborting it, the row does not count as observed
        let started = !case.slow || obs.markers.contains(&format!("m{}", case.pos));
        let shape = hash_str(&format!("{:?}{:?}{:?}{}{}{}{}{}{:?}", case.format, case.per_test, case.doc, case.slow, case.n, case.pos, case.wait, case.trap_term, case.skip_code));
        let mut c = match verdict {
            Some((sig, detail)) => Checked::violated(sig, detail),
            None => Checked::held(),
        };
        c = c.shape(started, shape).bucket(if started { "B:rows" } else { "B:slow-command-never-started" });
        if case.slow {
            c = c.bucket("near-miss:limit-far-below-duration");
        }
        for b in buckets {
            c = c.bucket(b);
        }
        c
    }
}

impl Monitor for C14 {
    type Case = Case;

    fn id(&self) -> &'static str {
        "C14"
    }

    fn plan(&self, tier: Tier) -> Plan {
        let nb = n_matrix(tier);
        let mut p = Plan::new(
            nb + tier.pick(200, 5000),
            "(A) runs of 1-3 Markdown documents with fast commands (0 or 20-80 ms) under per-test limits {absent, 50 ms .. 1 h, equal to / just above the document limit} and document limits {default, 0, 200 ms .. 1 h} from front-matter and/or --timeout-seconds: every timeout_decision event judged logically; non-trivial = a decision with both limits defined; distinct = hash of (relation, per-test limit, document limit) per decision. (B) matrix per-test {absent, 300 ms, 30 s} x document limit {default, 0, 1 s front-matter, --timeout-seconds 1/0} x position {first, middle, last} x {sleep 8 (plain, after the shell was told to ignore / to trap SIGTERM, or after it closed / redirected its output streams), instantaneous} restricted to rows where the smallest limit is <= 1 s (slow) or every limit >= 20 s (instantaneous), Markdown plus the command-line rows for Cram, plus rows in which a `wait: 2s` uses up a 1 s document limit between two instantaneous test cases (that test case or the next must be reported failed, nothing after it passed, exit 50): plus rows with `wait: {timeout, path}` under a 20 s document limit (path exists before / is created 0.3 s into the wait by a detached test case / never appears with a 2 s wait): the document passes and scrut returns within 8 s: every row non-trivial",
        );
        p.chunk = 1;
        p.workers = tier.pick(28, 32);
        p.case_timeout_s = 150;
        p.floor_nontrivial = tier.pick(38, 600);
        p.floor_buckets = vec![
            ("B:rows".into(), tier.pick(12, 45)),
            ("A:documents".into(), tier.pick(40, 1000)),
            ("A:winner=per".into(), tier.pick(66, 1600)),
            ("A:winner=doc".into(), tier.pick(120, 3000)),
            ("A:near-miss-tie".into(), tier.pick(5, 120)),
            ("kind:timeout".into(), tier.pick(8, 30)),
            ("B:wait:document-limit-only:markdown".into(), tier.pick(1, 3)),
            ("B:wait-path".into(), tier.pick(2, 6)),
            ("B:slow-command/sigterm-ignored".into(), tier.pick(2, 6)),
            ("B:slow-command/streams-closed".into(), tier.pick(2, 6)),
            ("B:slow-command/streams-to-dev-null".into(), tier.pick(2, 6)),
            ("B:unreachable-skip-code".into(), tier.pick(4, 15)),
            ("B:slow-command/sigterm-trapped".into(), tier.pick(2, 6)),
        ];
        p.assumptions = vec![
            "(A) rests on the timeout_decision / exec_end hooks; missing events are inconclusive".into(),
            "(A) a command that ran to its end slept at least as long as its `sleep` argument (monotonic clock)".into(),
            "(B) a command under a limit <= 1 s that sleeps 8 s must time out; an instantaneous command under limits >= 20 s must not; nothing in between is generated".into(),
            "(B) a timeout reported earlier than the slow test case under a 1 s document limit is accepted (loaded machine)".into(),
            "(B) Cram: which test case carries the timeout is not judged".into(),
        ];
        p
    }

    fn gen(&self, env: &Env, k: u64, rng: &mut Rng) -> Case {
        if k < n_matrix(env.tier) {
            Case::Matrix(gen_matrix(k, rng))
        } else {
            Case::Decision(gen_decision(rng))
        }
    }

    fn check(&self, env: &Env, case: &Case) -> Checked {
        match case {
            Case::Matrix(m) => self.check_matrix(env, m),
            Case::Decision(d) => self.check_decision(env, d),
        }
    }

    fn shrink(&self, case: &Case) -> Vec<Case> {
        let mut out = vec![];
        match case {
            Case::Matrix(m) => {
                if m.skip_code.is_some() {
                    let mut s = m.clone();
                    s.skip_code = None;
                    s.skip_inline = false;
                    out.push(Case::Matrix(s));
                }
                // rows sleep: at most two cheaper variants
                if m.wait {
                    if m.n > 2 || m.pos > 0 {
                        let mut s = m.clone();
                        s.n = 2;
                        s.pos = 0;
                        out.push(Case::Matrix(s));
                    }
                } else if m.n > 1 {
                    let mut s = m.clone();
                    s.n = 1;
                    s.pos = 0;
                    out.push(Case::Matrix(s));
                    if m.pos > 0 {
                        let mut s = m.clone();
                        s.n = m.n - m.pos;
                        s.pos = 0;
                        out.push(Case::Matrix(s));
                    }
                }
            }
            Case::Decision(d) => {
                for i in 0..d.docs.len() {
                    if d.docs.len() > 1 {
                        let mut s = d.clone();
                        s.docs.remove(i);
                        out.push(Case::Decision(s));
                    }
                }
                for i in 0..d.docs.len() {
                    for j in (0..d.docs[i].tests.len()).rev() {
                        if d.docs[i].tests.len() > 1 {
                            let mut s = d.clone();
                            s.docs[i].tests.remove(j);
                            out.push(Case::Decision(s));
                        }
                    }
                    for j in 0..d.docs[i].tests.len() {
                        if d.docs[i].tests[j].sleep_ms > 0 {
                            let mut s = d.clone();
                            s.docs[i].tests[j].sleep_ms = 0;
                            out.push(Case::Decision(s));
                        }
                    }
                }
            }
        }
        out
    }

    fn sample(&self, case: &Case) -> Value {
        match case {
            Case::Matrix(m) => {
                let mut v = sample_run(&m.to_run());
                v["monitor"] = json!("B");
                v["row"] = json!(format!("{:?} per-test={:?} document={:?} n={} pos={} slow={} wait={} trap_term={} skip_code={:?} inline={}", m.format, m.per_test, m.doc, m.n, m.pos, m.slow, m.wait, m.trap_term, m.skip_code, m.skip_inline));
                v
            }
            Case::Decision(d) => {
                let mut v = sample_run(&d.to_run());
                v["monitor"] = json!("A");
                v
            }
        }
    }
}
