//! Supervisor: worker processes, crash attribution, watchdogs, known findings,
//! pinned witnesses, evidence.

use std::collections::BTreeMap;
use std::collections::HashSet;
use std::io::BufRead;
use std::io::BufReader;
use std::os::unix::process::ExitStatusExt;
use std::path::Path;
use std::path::PathBuf;
use std::process::Command;
use std::process::Stdio;
use std::sync::atomic::AtomicU64;
use std::sync::atomic::Ordering;
use std::sync::Arc;
use std::sync::Mutex;
use std::time::Duration;
use std::time::Instant;

use serde_json::json;
use serde_json::Value;

use crate::core::DynMonitor;
use crate::core::Plan;
use crate::core::Tier;
use crate::known::Known;
use crate::rng::hash_str;

pub const VERIF: &str = "/verif";
const MAX_VIOLATION_SIGS: usize = 20;
const MAX_SHAPES: usize = 4_000_000;

#[derive(Default)]
struct Agg {
    evaluations: u64,
    held: u64,
    violated: u64,
    inconclusive: u64,
    oos: u64,
    nontrivial: u64,
    shapes: HashSet<u64>,
    shapes_capped: bool,
    buckets: BTreeMap<String, u64>,
    samples: Vec<Value>,
    /// sig -> (detail, case, sample, count)
    violations: BTreeMap<String, (String, Value, Value, u64)>,
    inconclusive_reasons: Vec<String>,
    harness_errors: Vec<String>,
}

enum ChunkEnd {
    Completed,
    /// died (signal or non-zero exit) while case k was in flight (trace mode) or somewhere (fast mode)
    Died { k: Option<u64>, how: String },
    TimedOut { k: Option<u64> },
}

struct Ctx {
    exe: PathBuf,
    id: String,
    tier: Tier,
    seed: u64,
    scrut_bin: PathBuf,
    scratch_root: PathBuf,
    plan: Plan,
}

fn sanitize_sig(sig: &str) -> String {
    sig.chars().map(|c| if c.is_whitespace() { '_' } else { c }).collect()
}

fn spawn_worker(ctx: &Ctx, slot: usize, extra: &[String]) -> std::io::Result<std::process::Child> {
    let scratch = ctx.scratch_root.join(format!("w{slot}"));
    let _ = std::fs::create_dir_all(&scratch);
    let mut cmd = Command::new(&ctx.exe);
    cmd.arg("worker")
        .arg(&ctx.id)
        .arg(ctx.tier.name())
        .arg("--seed")
        .arg(ctx.seed.to_string())
        .args(extra)
        .env("VH_SCRUT_BIN", &ctx.scrut_bin)
        .env("VH_SCRATCH", &scratch)
        .env_remove("SCRUT_VERIF_TRACE")
        .stdin(Stdio::null())
        .stdout(Stdio::piped())
        .stderr(Stdio::null());
    cmd.spawn()
}

fn absorb_line(agg: &Mutex<Agg>, line: &str) {
    let Ok(v) = serde_json::from_str::<Value>(line) else {
        return;
    };
    let mut a = agg.lock().unwrap();
    match v["t"].as_str() {
        Some("sum") => {
            a.evaluations += v["to"].as_u64().unwrap_or(0) - v["from"].as_u64().unwrap_or(0);
            a.held += v["held"].as_u64().unwrap_or(0);
            a.violated += v["violated"].as_u64().unwrap_or(0);
            a.inconclusive += v["inconclusive"].as_u64().unwrap_or(0);
            a.oos += v["oos"].as_u64().unwrap_or(0);
            a.nontrivial += v["nontrivial"].as_u64().unwrap_or(0);
            if let Some(sh) = v["shapes"].as_array() {
                for s in sh {
                    if a.shapes.len() >= MAX_SHAPES {
                        a.shapes_capped = true;
                        break;
                    }
                    if let Some(x) = s.as_u64() {
                        a.shapes.insert(x);
                    }
                }
            }
            if let Some(b) = v["buckets"].as_object() {
                for (k, n) in b {
                    *a.buckets.entry(k.clone()).or_insert(0) += n.as_u64().unwrap_or(0);
                }
            }
        }
        Some("s") => {
            let near = v["buckets"]
                .as_array()
                .map(|b| b.iter().any(|x| x.as_str().is_some_and(|s| s.contains("near"))))
                .unwrap_or(false);
            let n_near = a.samples.iter().filter(|s| s["near_miss"] == json!(true)).count();
            if a.samples.len() < 8 || (near && n_near < 2) {
                a.samples
                    .push(json!({"k": v["k"], "buckets": v["buckets"], "near_miss": near, "case": v["sample"]}));
            }
        }
        Some("v") => {
            let sig = sanitize_sig(v["sig"].as_str().unwrap_or("?"));
            let e = a.violations.entry(sig).or_insert((
                v["detail"].as_str().unwrap_or("").to_string(),
                v["case"].clone(),
                v["sample"].clone(),
                0,
            ));
            e.3 += 1;
        }
        Some("i") => {
            if a.inconclusive_reasons.len() < 20 {
                a.inconclusive_reasons
                    .push(format!("case {}: {}", v["k"], v["reason"].as_str().unwrap_or("?")));
            }
        }
        _ => {}
    }
}

/// runs one chunk; in trace mode tracks the case in flight and enforces the per-case watchdog
fn run_chunk(ctx: &Ctx, agg: &Arc<Mutex<Agg>>, slot: usize, from: u64, to: u64, trace: bool, case_timeout_s: u64) -> ChunkEnd {
    let mut extra = vec!["--from".to_string(), from.to_string(), "--to".to_string(), to.to_string()];
    if trace {
        extra.push("--trace".into());
    }
    let mut child = match spawn_worker(ctx, slot, &extra) {
        Ok(c) => c,
        Err(e) => {
            agg.lock().unwrap().harness_errors.push(format!("cannot spawn worker: {e}"));
            return ChunkEnd::Completed;
        }
    };
    let stdout = child.stdout.take().unwrap();
    let in_flight = Arc::new(AtomicU64::new(u64::MAX));
    let last_event = Arc::new(Mutex::new(Instant::now()));
    let agg2 = agg.clone();
    let in_flight2 = in_flight.clone();
    let last_event2 = last_event.clone();
    let reader = std::thread::spawn(move || {
        let r = BufReader::new(stdout);
        for line in r.lines() {
            let Ok(line) = line else { break };
            if line.starts_with("{\"k\":") || line.contains("\"t\":\"b\"") || line.contains("\"t\":\"e\"") {
                if let Ok(v) = serde_json::from_str::<Value>(&line) {
                    match v["t"].as_str() {
                        Some("b") => {
                            in_flight2.store(v["k"].as_u64().unwrap_or(u64::MAX), Ordering::SeqCst);
                            *last_event2.lock().unwrap() = Instant::now();
                            continue;
                        }
                        Some("e") => {
                            in_flight2.store(u64::MAX, Ordering::SeqCst);
                            *last_event2.lock().unwrap() = Instant::now();
                            continue;
                        }
                        _ => {}
                    }
                }
            }
            absorb_line(&agg2, &line);
        }
    });
    let n = to - from;
    let chunk_deadline = Instant::now() + Duration::from_secs(case_timeout_s.saturating_mul(n.min(40)).max(120));
    let end;
    loop {
        match child.try_wait() {
            Ok(Some(status)) => {
                let _ = reader.join();
                if status.success() {
                    end = ChunkEnd::Completed;
                } else {
                    let k = in_flight.load(Ordering::SeqCst);
                    let how = match status.signal() {
                        Some(s) => format!("signal-{s}"),
                        None => format!("exit-{}", status.code().unwrap_or(-1)),
                    };
                    end = ChunkEnd::Died {
                        k: if k == u64::MAX { None } else { Some(k) },
                        how,
                    };
                }
                break;
            }
            Ok(None) => {}
            Err(_) => {
                end = ChunkEnd::Completed;
                break;
            }
        }
        let timed_out = if trace {
            last_event.lock().unwrap().elapsed() > Duration::from_secs(case_timeout_s)
        } else {
            Instant::now() > chunk_deadline
        };
        if timed_out {
            let _ = child.kill();
            let _ = child.wait();
            let _ = reader.join();
            let k = in_flight.load(Ordering::SeqCst);
            end = ChunkEnd::TimedOut {
                k: if k == u64::MAX { None } else { Some(k) },
            };
            break;
        }
        std::thread::sleep(Duration::from_millis(if trace { 20 } else { 50 }));
    }
    end
}

fn dump_case(ctx: &Ctx, slot: usize, k: u64) -> Value {
    let extra = vec!["--dump-case".to_string(), k.to_string()];
    let Ok(child) = spawn_worker(ctx, slot, &extra) else {
        return Value::Null;
    };
    let Ok(out) = child.wait_with_output() else {
        return Value::Null;
    };
    serde_json::from_slice(&out.stdout).unwrap_or(Value::Null)
}

/// handle one chunk completely: fast run, on trouble re-run traced and attribute
fn process_chunk(ctx: &Ctx, agg: &Arc<Mutex<Agg>>, slot: usize, from: u64, to: u64, always_trace: bool, case_timeout_s: u64) {
    if !always_trace {
        // fast mode collects into a private aggregate so that a failed chunk
        // can be re-run without double counting
        let private = Arc::new(Mutex::new(Agg::default()));
        match run_chunk(ctx, &private, slot, from, to, false, case_timeout_s) {
            ChunkEnd::Completed => {
                merge(agg, private);
                return;
            }
            _ => {}
        }
    }
    let mut start = from;
    let mut guard = 0;
    while start < to {
        guard += 1;
        if guard > 50 {
            agg.lock()
                .unwrap()
                .harness_errors
                .push(format!("chunk {from}..{to}: too many worker deaths"));
            return;
        }
        match run_chunk(ctx, agg, slot, start, to, true, case_timeout_s) {
            ChunkEnd::Completed => return,
            ChunkEnd::Died { k: Some(k), how } => {
                let case = dump_case(ctx, slot, k);
                let mut a = agg.lock().unwrap();
                a.evaluations += k + 1 - start;
                if how.starts_with("signal") {
                    a.violated += 1;
                    let sig = format!("{}/crash/{}", ctx.id, how);
                    let e = a.violations.entry(sig).or_insert((
                        format!("worker process died ({how}) while checking case {k}"),
                        case,
                        Value::Null,
                        0,
                    ));
                    e.3 += 1;
                } else {
                    a.harness_errors.push(format!("worker exited ({how}) at case {k}"));
                }
                start = k + 1;
            }
            ChunkEnd::Died { k: None, how } => {
                agg.lock()
                    .unwrap()
                    .harness_errors
                    .push(format!("worker died ({how}) outside of a case in {start}..{to}"));
                return;
            }
            ChunkEnd::TimedOut { k: Some(k) } => {
                let mut a = agg.lock().unwrap();
                a.evaluations += k + 1 - start;
                a.inconclusive += 1;
                a.inconclusive_reasons
                    .push(format!("case {k}: watchdog ({case_timeout_s} s)"));
                start = k + 1;
            }
            ChunkEnd::TimedOut { k: None } => {
                agg.lock()
                    .unwrap()
                    .harness_errors
                    .push(format!("worker hung outside of a case in {start}..{to}"));
                return;
            }
        }
    }
}

fn merge(agg: &Arc<Mutex<Agg>>, private: Arc<Mutex<Agg>>) {
    let p = std::mem::take(&mut *private.lock().unwrap());
    let mut a = agg.lock().unwrap();
    a.evaluations += p.evaluations;
    a.held += p.held;
    a.violated += p.violated;
    a.inconclusive += p.inconclusive;
    a.oos += p.oos;
    a.nontrivial += p.nontrivial;
    for s in p.shapes {
        if a.shapes.len() >= MAX_SHAPES {
            a.shapes_capped = true;
            break;
        }
        a.shapes.insert(s);
    }
    for (k, n) in p.buckets {
        *a.buckets.entry(k).or_insert(0) += n;
    }
    for s in p.samples {
        let near = s["near_miss"] == json!(true);
        let n_near = a.samples.iter().filter(|s| s["near_miss"] == json!(true)).count();
        if a.samples.len() < 8 || (near && n_near < 2 && a.samples.len() < 12) {
            a.samples.push(s);
        }
    }
    for (sig, v) in p.violations {
        let e = a.violations.entry(sig).or_insert((v.0, v.1, v.2, 0));
        e.3 += v.3;
    }
    for r in p.inconclusive_reasons {
        if a.inconclusive_reasons.len() < 20 {
            a.inconclusive_reasons.push(r);
        }
    }
    a.harness_errors.extend(p.harness_errors);
}

struct PinnedResult {
    file: String,
    expect: String,
    got: String,
    sig: String,
    ok: bool,
}

fn run_replay_file(ctx: &Ctx, file: &Path, slot: usize) -> Result<Value, String> {
    let extra = vec!["--replay".to_string(), file.display().to_string()];
    let mut child = spawn_worker(ctx, slot, &extra).map_err(|e| e.to_string())?;
    let deadline = Instant::now() + Duration::from_secs(ctx.plan.case_timeout_s.max(60) * 2);
    let stdout = child.stdout.take().unwrap();
    let reader = std::thread::spawn(move || {
        let mut s = String::new();
        let _ = std::io::Read::read_to_string(&mut BufReader::new(stdout), &mut s);
        s
    });
    loop {
        match child.try_wait() {
            Ok(Some(status)) => {
                let out = reader.join().unwrap_or_default();
                if let Some(sig) = status.signal() {
                    return Ok(json!({"verdict":"violated","sig":format!("{}/crash/signal-{}", ctx.id, sig),"detail":"worker died"}));
                }
                for line in out.lines().rev() {
                    if let Ok(v) = serde_json::from_str::<Value>(line) {
                        if v["t"] == json!("r") {
                            return Ok(v);
                        }
                    }
                }
                return Err(format!("replay produced no verdict (status {status})"));
            }
            Ok(None) => {}
            Err(e) => return Err(e.to_string()),
        }
        if Instant::now() > deadline {
            let _ = child.kill();
            let _ = child.wait();
            return Ok(json!({"verdict":"inconclusive","reason":"watchdog"}));
        }
        std::thread::sleep(Duration::from_millis(20));
    }
}

pub struct Outcome {
    pub exit: i32,
}

/// where evidence and new replay files go (default /verif; mutant rigs set VH_OUT to keep /verif clean)
pub fn out_dir() -> PathBuf {
    std::env::var_os("VH_OUT").map(PathBuf::from).unwrap_or_else(|| PathBuf::from(VERIF))
}

pub fn write_replay(id: &str, sig: &str, detail: &str, case: &Value) -> PathBuf {
    let dir = out_dir().join("replays").join(id);
    let _ = std::fs::create_dir_all(&dir);
    let path = dir.join(format!("{:016x}.json", hash_str(sig)));
    let body = json!({"property": id, "sig": sig, "detail": detail, "case": case});
    let _ = std::fs::write(&path, serde_json::to_string_pretty(&body).unwrap_or_default());
    path
}

pub fn check(m: Arc<dyn DynMonitor>, tier: Tier, seed: u64, scrut_bin: PathBuf) -> Outcome {
    let started = Instant::now();
    let id = m.id().to_string();
    let plan = m.plan(tier);
    let exe = std::env::current_exe().expect("current exe");
    let scratch_root = PathBuf::from(format!("/tmp/vh-{}-{}", std::process::id(), id));
    let _ = std::fs::remove_dir_all(&scratch_root);
    let _ = std::fs::create_dir_all(&scratch_root);
    let ctx = Arc::new(Ctx {
        exe,
        id: id.clone(),
        tier,
        seed,
        scrut_bin,
        scratch_root: scratch_root.clone(),
        plan: plan.clone(),
    });
    let known_path = std::env::var_os("VH_KNOWN").map(PathBuf::from).unwrap_or_else(|| Path::new(VERIF).join("KNOWN_FINDINGS.txt"));
    let known = Arc::new(Known::load(&known_path));
    let agg = Arc::new(Mutex::new(Agg::default()));

    // 1. pinned witnesses
    let mut pinned: Vec<PinnedResult> = vec![];
    let pin_dir = Path::new(VERIF).join("replays").join(&id);
    let mut pin_files: Vec<PathBuf> = std::fs::read_dir(&pin_dir)
        .map(|d| {
            d.filter_map(|e| e.ok())
                .map(|e| e.path())
                .filter(|p| {
                    p.file_name()
                        .and_then(|n| n.to_str())
                        .is_some_and(|n| n.starts_with("pinned-") && n.ends_with(".json"))
                })
                .collect()
        })
        .unwrap_or_default();
    pin_files.sort();
    let mut pinned_violations: Vec<(String, String, PathBuf)> = vec![];
    let mut known_seen: BTreeMap<String, (String, u64)> = BTreeMap::new();
    // replay the pinned witnesses (8 at a time), then judge them in file order
    let mut pin_results: Vec<Option<Result<Value, String>>> = (0..pin_files.len()).map(|_| None).collect();
    for (base, group) in pin_files.chunks(8).enumerate() {
        let handles: Vec<_> = group
            .iter()
            .enumerate()
            .map(|(i, f)| {
                let ctx = ctx.clone();
                let f = f.clone();
                std::thread::spawn(move || run_replay_file(&ctx, &f, 100 + i))
            })
            .collect();
        for (i, h) in handles.into_iter().enumerate() {
            pin_results[base * 8 + i] = Some(h.join().unwrap_or_else(|_| Err("replay thread panicked".into())));
        }
    }
    for (f, result) in pin_files.iter().zip(pin_results.into_iter()) {
        let spec: Value = std::fs::read_to_string(f)
            .ok()
            .and_then(|s| serde_json::from_str(&s).ok())
            .unwrap_or(Value::Null);
        let expect = spec["expect"].as_str().unwrap_or("held").to_string();
        let name = f.file_name().unwrap().to_string_lossy().to_string();
        match result.unwrap_or_else(|| Err("not run".into())) {
            Ok(v) => {
                let got = v["verdict"].as_str().unwrap_or("?").to_string();
                let sig = sanitize_sig(v["sig"].as_str().unwrap_or(""));
                let mut ok = true;
                if got == "violated" {
                    if let Some(fd) = known.matching(&id, &sig) {
                        let e = known_seen.entry(fd.sig.clone()).or_insert((fd.text.clone(), 0));
                        e.1 += 1;
                    } else {
                        ok = false;
                        pinned_violations.push((sig.clone(), v["detail"].as_str().unwrap_or("").to_string(), f.clone()));
                    }
                } else if got == "inconclusive" {
                    agg.lock()
                        .unwrap()
                        .inconclusive_reasons
                        .push(format!("pinned {name}: {}", v["reason"].as_str().unwrap_or("?")));
                    agg.lock().unwrap().inconclusive += 1;
                } else if expect == "violated" {
                    println!("KNOWN-FINDING-NOT-REPRODUCED: property={id} pinned witness {name} now holds");
                }
                pinned.push(PinnedResult {
                    file: name,
                    expect,
                    got,
                    sig,
                    ok,
                });
            }
            Err(e) => {
                agg.lock().unwrap().harness_errors.push(format!("pinned {name}: {e}"));
            }
        }
    }

    // 2. generated workload
    // (from, to, always_trace, case_timeout_s)
    let chunks: Vec<(u64, u64, bool, u64)> = {
        let mut v = vec![];
        for seg in m.segments(tier) {
            let mut a = seg.from;
            while a < seg.to {
                let b = (a + seg.chunk.max(1)).min(seg.to);
                v.push((a, b, seg.chunk <= 4, seg.case_timeout_s));
                a = b;
            }
        }
        v
    };
    let next = Arc::new(AtomicU64::new(0));
    let chunks = Arc::new(chunks);
    let mut handles = vec![];
    for slot in 0..plan.workers.max(1) {
        let ctx = ctx.clone();
        let agg = agg.clone();
        let next = next.clone();
        let chunks = chunks.clone();
        let known = known.clone();
        handles.push(std::thread::spawn(move || loop {
            let i = next.fetch_add(1, Ordering::SeqCst) as usize;
            if i >= chunks.len() {
                break;
            }
            // stop early only when many *unlisted* signatures have been collected (known findings do not count)
            if agg.lock().unwrap().violations.keys().filter(|s| known.matching(&ctx.id, s).is_none()).count() >= MAX_VIOLATION_SIGS {
                break;
            }
            let (a, b, always_trace, case_timeout_s) = chunks[i];
            process_chunk(&ctx, &agg, slot, a, b, always_trace, case_timeout_s);
        }));
    }
    for h in handles {
        let _ = h.join();
    }

    // 3. sidecars (run inside a worker process)
    let mut sidecars: Vec<Value> = vec![];
    {
        let extra = vec!["--sidecar".to_string()];
        if let Ok(child) = spawn_worker(&ctx, 98, &extra) {
            if let Ok(out) = child.wait_with_output() {
                for line in String::from_utf8_lossy(&out.stdout).lines() {
                    if let Ok(v) = serde_json::from_str::<Value>(line) {
                        if v["t"] == json!("sc") {
                            let mut a = agg.lock().unwrap();
                            if let Some(vs) = v["violations"].as_array() {
                                for x in vs {
                                    let sig = sanitize_sig(x[0].as_str().unwrap_or("?"));
                                    a.violated += 1;
                                    let e = a.violations.entry(sig).or_insert((
                                        x[1].as_str().unwrap_or("").to_string(),
                                        x[2].clone(),
                                        Value::Null,
                                        0,
                                    ));
                                    e.3 += 1;
                                }
                            }
                            if let Some(r) = v["inconclusive"].as_str() {
                                a.inconclusive += 1;
                                a.inconclusive_reasons.push(format!("sidecar {}: {r}", v["label"]));
                            }
                            sidecars.push(json!({"label": v["label"], "observed": v["observed"], "note": v["note"]}));
                        }
                    }
                }
                if !out.status.success() {
                    agg.lock().unwrap().harness_errors.push("sidecar worker failed".into());
                }
            }
        }
    }

    let _ = std::fs::remove_dir_all(&scratch_root);

    // 4. verdict
    let a = std::mem::take(&mut *agg.lock().unwrap());
    let mut new_violations: Vec<(String, String, PathBuf)> = pinned_violations;
    for (sig, (detail, case, _sample, count)) in &a.violations {
        if let Some(fd) = known.matching(&id, sig) {
            let e = known_seen.entry(fd.sig.clone()).or_insert((fd.text.clone(), 0));
            e.1 += count;
        } else {
            let path = write_replay(&id, sig, detail, case);
            new_violations.push((sig.clone(), detail.clone(), path));
        }
    }
    for (sig, (text, n)) in &known_seen {
        println!("KNOWN-FINDING: property={id} {text} [sig={sig} seen={n}]");
    }
    let mut seen_paths = HashSet::new();
    for (sig, detail, path) in &new_violations {
        if seen_paths.insert(path.clone()) {
            println!("VIOLATION property={id} replay={}", path.display());
        }
        println!("  sig={sig}");
        println!("  detail={}", detail.chars().take(600).collect::<String>());
    }

    let distinct = a.shapes.len() as u64;
    let mut floors_missed: Vec<String> = vec![];
    if distinct < plan.floor_nontrivial {
        floors_missed.push(format!("distinct non-trivial cases {distinct} < floor {}", plan.floor_nontrivial));
    }
    for (b, n) in &plan.floor_buckets {
        let got = a.buckets.get(b).copied().unwrap_or(0);
        if got < *n {
            floors_missed.push(format!("bucket {b}: {got} < floor {n}"));
        }
    }
    let wall = started.elapsed().as_secs_f64();
    let unlisted = new_violations.len();
    // A few undecided cases (watchdog on a loaded machine, a violation that did not reproduce) do not make
    // the run inconclusive as long as every coverage floor is met without them: they are counted and
    // listed as what they are, never as held.
    let tolerated = std::cmp::max(3, a.evaluations / 200);
    let exit = if unlisted > 0 {
        1
    } else if !a.harness_errors.is_empty() || a.inconclusive > tolerated || !floors_missed.is_empty() {
        2
    } else {
        0
    };

    // 5. evidence
    let mut samples = a.samples.clone();
    if samples.is_empty() {
        samples.push(json!({"note": "no sample recorded"}));
    }
    let evidence = json!({
        "property_id": id,
        "tier": tier.name(),
        "seed": seed,
        "level": "exploration",
        "coverage": {
            "evaluations": a.evaluations + pinned.len() as u64,
            "distinct_nontrivial": distinct,
            "distinct_nontrivial_is_lower_bound": a.shapes_capped,
            "nontrivial_cases": a.nontrivial,
            "rule": plan.rule,
            "samples": samples,
            "verdicts": {"held": a.held, "violated": a.violated, "inconclusive": a.inconclusive, "out_of_scope": a.oos},
            "observed_buckets": a.buckets,
            "pinned_witnesses": pinned.iter().map(|p| json!({"file": p.file, "expect": p.expect, "got": p.got, "sig": p.sig, "ok": p.ok})).collect::<Vec<_>>(),
            "known_findings_reproduced": known_seen.iter().map(|(s,(t,n))| json!({"sig": s, "text": t, "seen": n})).collect::<Vec<_>>(),
            "unlisted_violation_signatures": new_violations.iter().map(|v| v.0.clone()).collect::<Vec<_>>(),
            "sidecars": sidecars,
            "inconclusive_reasons": a.inconclusive_reasons,
            "floors_missed": floors_missed,
            "floors": {
                "distinct_nontrivial": {"required": plan.floor_nontrivial, "observed": distinct},
                "buckets": plan.floor_buckets.iter().map(|(b, n)| json!({"bucket": b, "required": n, "observed": a.buckets.get(b).copied().unwrap_or(0)})).collect::<Vec<_>>(),
            },
            "harness_errors": a.harness_errors,
            "inconclusive_tolerated_up_to": tolerated,
            "verdict": match (exit, a.inconclusive) {
                (0, 0) => "held on what was observed".to_string(),
                (0, n) => format!("held on what was observed; {n} case(s) undecided and not counted (floors met without them)"),
                (1, _) => "violated".to_string(),
                _ => "inconclusive".to_string(),
            },
        },
        "assumptions": plan.assumptions,
        "wall_s": (wall * 100.0).round() / 100.0,
        "violations": unlisted,
    });
    let ev_dir = out_dir().join("evidence");
    let _ = std::fs::create_dir_all(&ev_dir);
    let _ = std::fs::write(
        ev_dir.join(format!("{id}.json")),
        serde_json::to_string_pretty(&evidence).unwrap_or_default() + "\n",
    );

    println!(
        "{id} {}: seed={seed} cases={} held={} violated={} (unlisted sigs {}) inconclusive={} out-of-scope={} distinct-nontrivial={} wall={:.1}s -> exit {exit}",
        tier.name(),
        a.evaluations,
        a.held,
        a.violated,
        unlisted,
        a.inconclusive,
        a.oos,
        distinct,
        wall
    );
    if exit == 2 || a.inconclusive > 0 {
        for r in a.inconclusive_reasons.iter().take(10) {
            println!("  inconclusive: {r}");
        }
        for r in &floors_missed {
            println!("  floor missed: {r}");
        }
        for r in a.harness_errors.iter().take(10) {
            println!("  harness error: {r}");
        }
    }
    Outcome { exit }
}

/// `./check <ID> --replay <file>`
pub fn replay(m: Arc<dyn DynMonitor>, tier: Tier, seed: u64, scrut_bin: PathBuf, file: &Path) -> Outcome {
    let id = m.id().to_string();
    let exe = std::env::current_exe().expect("current exe");
    let scratch_root = PathBuf::from(format!("/tmp/vh-{}-{}-replay", std::process::id(), id));
    let _ = std::fs::create_dir_all(&scratch_root);
    let ctx = Ctx {
        exe,
        id: id.clone(),
        tier,
        seed,
        scrut_bin,
        scratch_root: scratch_root.clone(),
        plan: m.plan(tier),
    };
    let known = Known::load(&Path::new(VERIF).join("KNOWN_FINDINGS.txt"));
    let r = run_replay_file(&ctx, file, 99);
    let _ = std::fs::remove_dir_all(&scratch_root);
    match r {
        Ok(v) => {
            println!("{}", serde_json::to_string_pretty(&v).unwrap_or_default());
            match v["verdict"].as_str() {
                Some("violated") => {
                    let sig = sanitize_sig(v["sig"].as_str().unwrap_or(""));
                    if let Some(fd) = known.matching(&id, &sig) {
                        println!("KNOWN-FINDING: property={id} {} [sig={}]", fd.text, fd.sig);
                        Outcome { exit: 0 }
                    } else {
                        println!("VIOLATION property={id} replay={}", file.display());
                        Outcome { exit: 1 }
                    }
                }
                Some("held") | Some("out-of-scope") => Outcome { exit: 0 },
                _ => Outcome { exit: 2 },
            }
        }
        Err(e) => {
            println!("replay error: {e}");
            Outcome { exit: 2 }
        }
    }
}
