//! Test documents generated from a block list (Markdown) / item list (Cram), so that the
//! expected list of test cases is known by construction (C06, C07, C10; C09 uses the renderer
//! for the documents it updates).
//!
//! Nothing in here calls scrut: the expected reading of a document is derived from the AST
//! alone. Constructs scrut does not document are kept in `Block::Undoc` and make the whole
//! document "no-crash only".

#![allow(dead_code)]

use std::collections::BTreeMap;

use serde::Deserialize;
use serde::Serialize;

use crate::rng::Rng;

// ---------------------------------------------------------------------------------------------
// configuration model (per key, harness-owned)
// ---------------------------------------------------------------------------------------------

#[derive(Clone, Debug, Default, PartialEq, Eq, Serialize, Deserialize)]
pub struct Cfg {
    #[serde(default, skip_serializing_if = "Option::is_none")]
    pub timeout_ms: Option<u64>,
    #[serde(default, skip_serializing_if = "Option::is_none")]
    pub keep_crlf: Option<bool>,
    #[serde(default, skip_serializing_if = "Option::is_none")]
    pub output_stream: Option<String>,
    #[serde(default, skip_serializing_if = "Option::is_none")]
    pub skip_document_code: Option<i32>,
    #[serde(default, skip_serializing_if = "Option::is_none")]
    pub strip_ansi_escaping: Option<bool>,
    #[serde(default, skip_serializing_if = "Option::is_none")]
    pub detached: Option<bool>,
    #[serde(default, skip_serializing_if = "Option::is_none")]
    pub wait_ms: Option<u64>,
    #[serde(default, skip_serializing_if = "Option::is_none")]
    pub wait_path: Option<String>,
    #[serde(default, skip_serializing_if = "BTreeMap::is_empty")]
    pub environment: BTreeMap<String, String>,
}

impl Cfg {
    pub fn is_empty(&self) -> bool {
        *self == Cfg::default()
    }
    /// `self` layered over `lower`: a key set in `self` wins, environment maps are united
    pub fn over(&self, lower: &Cfg) -> Cfg {
        let mut environment = lower.environment.clone();
        for (k, v) in &self.environment {
            environment.insert(k.clone(), v.clone());
        }
        let (wait_ms, wait_path) = if self.wait_ms.is_some() {
            (self.wait_ms, self.wait_path.clone())
        } else {
            (lower.wait_ms, lower.wait_path.clone())
        };
        Cfg {
            timeout_ms: self.timeout_ms.or(lower.timeout_ms),
            keep_crlf: self.keep_crlf.or(lower.keep_crlf),
            output_stream: self.output_stream.clone().or_else(|| lower.output_stream.clone()),
            skip_document_code: self.skip_document_code.or(lower.skip_document_code),
            strip_ansi_escaping: self.strip_ansi_escaping.or(lower.strip_ansi_escaping),
            detached: self.detached.or(lower.detached),
            wait_ms,
            wait_path,
            environment,
        }
    }
    /// documented defaults of Markdown documents: stdout only, skip code 80
    pub fn markdown_defaults() -> Cfg {
        Cfg {
            output_stream: Some("stdout".into()),
            skip_document_code: Some(80),
            ..Default::default()
        }
    }
    /// documented defaults of Cram documents: combined output, CRLF kept, skip code 80
    pub fn cram_defaults() -> Cfg {
        Cfg {
            output_stream: Some("combined".into()),
            keep_crlf: Some(true),
            skip_document_code: Some(80),
            ..Default::default()
        }
    }
}

const DURATIONS: &[(&str, u64)] = &[
    ("3s", 3_000),
    ("2m", 120_000),
    ("1m 30s", 90_000),
    ("500ms", 500),
    ("45s", 45_000),
    ("1h", 3_600_000),
];

/// a random configuration with 1..=3 keys; environment names carry the layer prefix so that
/// layers never overlap (overlap is C16's subject)
fn gen_cfg(rng: &mut Rng, layer: &str, benign: bool) -> (Cfg, Vec<(String, String)>) {
    // returns the model and the (key, yaml value) pairs in the order they are written
    let mut cfg = Cfg::default();
    let mut pairs: Vec<(String, String)> = vec![];
    let n = rng.range(1, 3);
    let mut keys: Vec<usize> = (0..8).collect();
    rng.shuffle(&mut keys);
    for &k in keys.iter().take(n) {
        match k {
            0 => {
                let (t, ms) = *rng.pick(DURATIONS);
                cfg.timeout_ms = Some(ms);
                pairs.push(("timeout".into(), t.into()));
            }
            1 => {
                let b = rng.bool();
                cfg.keep_crlf = Some(b);
                pairs.push(("keep_crlf".into(), b.to_string()));
            }
            2 => {
                // the monitors that validate (C10) feed stdout only
                let s = if benign { *rng.pick(&["stdout", "combined"]) } else { *rng.pick(&["stdout", "stderr", "combined"]) };
                cfg.output_stream = Some(s.into());
                pairs.push(("output_stream".into(), s.into()));
            }
            3 => {
                let c = *rng.pick(&[0, 1, 42, 80, 81, 255]);
                cfg.skip_document_code = Some(c);
                pairs.push(("skip_document_code".into(), c.to_string()));
            }
            4 => {
                let b = rng.bool();
                cfg.strip_ansi_escaping = Some(b);
                pairs.push(("strip_ansi_escaping".into(), b.to_string()));
            }
            5 => {
                let b = rng.bool();
                cfg.detached = Some(b);
                pairs.push(("detached".into(), b.to_string()));
            }
            6 => {
                let (t, ms) = *rng.pick(DURATIONS);
                cfg.wait_ms = Some(ms);
                if rng.bool() {
                    pairs.push(("wait".into(), t.into()));
                } else {
                    let p = *rng.pick(&["ready.sock", "tmp/flag", "x"]);
                    cfg.wait_path = Some(p.into());
                    pairs.push(("wait".into(), format!("{{timeout: {t}, path: {p}}}")));
                }
            }
            _ => {
                let m = rng.range(1, 2);
                let mut items = vec![];
                for i in 0..m {
                    let name = format!("{layer}_{}", ["A", "B"][i]);
                    let value = rng.pick(&["1", "val", "two words", "x=y", "/a/b"]).to_string();
                    cfg.environment.insert(name.clone(), value.clone());
                    items.push((name, value));
                }
                // value rendered by the writer (flow or block style)
                pairs.push((
                    "environment".into(),
                    items.iter().map(|(k, v)| format!("{k}\u{1}{v}")).collect::<Vec<_>>().join("\u{2}"),
                ));
            }
        }
    }
    (cfg, pairs)
}

fn env_items(v: &str) -> Vec<(String, String)> {
    v.split('\u{2}')
        .filter_map(|kv| kv.split_once('\u{1}').map(|(k, v)| (k.to_string(), v.to_string())))
        .collect()
}

/// `{key: value, ...}` as written behind the language of a fence line
fn cfg_flow_text(rng: &mut Rng, pairs: &[(String, String)]) -> String {
    let inner = pairs
        .iter()
        .map(|(k, v)| {
            if k == "environment" {
                let items = env_items(v).iter().map(|(k, v)| format!("{k}: \"{v}\"")).collect::<Vec<_>>().join(", ");
                format!("environment: {{{items}}}")
            } else {
                format!("{k}: {v}")
            }
        })
        .collect::<Vec<_>>()
        .join(", ");
    if rng.chance(1, 6) {
        format!("{{ {inner} }}")
    } else {
        format!("{{{inner}}}")
    }
}

/// block style YAML lines (front-matter), `indent` spaces deep
fn cfg_block_lines(pairs: &[(String, String)], indent: usize) -> Vec<String> {
    let pad = " ".repeat(indent);
    let mut out = vec![];
    for (k, v) in pairs {
        if k == "environment" {
            out.push(format!("{pad}environment:"));
            for (k, v) in env_items(v) {
                out.push(format!("{pad}  {k}: \"{v}\""));
            }
        } else {
            out.push(format!("{pad}{k}: {v}"));
        }
    }
    out
}

// ---------------------------------------------------------------------------------------------
// Markdown AST
// ---------------------------------------------------------------------------------------------

#[derive(Clone, Debug, PartialEq, Serialize, Deserialize)]
pub enum Role {
    Blank,
    /// ATX heading; `title` is the heading text
    Heading { title: String },
    /// paragraph line starting with a letter; `title` is the line
    Para { title: String },
    /// a line that is not a paragraph in Markdown (list item, quote, rule, table, html, reference)
    NonPara { class: String },
    /// a line that Markdown reads as paragraph text but that does not start with a letter
    /// (inline code, backticks, digits, emphasis): title check is relaxed after it
    ParaLike { class: String },
}

#[derive(Clone, Debug, PartialEq, Serialize, Deserialize)]
pub enum Body {
    /// expectation line; `kind` = (canonical kind, optional, multiline) when the line was built
    /// as expression + documented suffix
    Exp {
        text: String,
        #[serde(default)]
        kind: Option<(String, bool, bool)>,
        #[serde(default)]
        class: String,
    },
    Exit(i32),
}

#[derive(Clone, Debug, PartialEq, Serialize, Deserialize)]
pub struct Scrut {
    /// number of backticks of the fence, 3..=6
    pub fence: usize,
    /// whitespace variations of the fence line: "" | "trail" | "lead" | "cfg-trail"
    #[serde(default)]
    pub ws: String,
    /// `{...}` as written (with braces)
    #[serde(default)]
    pub cfg_text: Option<String>,
    #[serde(default)]
    pub cfg: Cfg,
    #[serde(default)]
    pub comments: Vec<String>,
    /// command lines without their `$ ` / `> ` prefix; empty = block without command
    #[serde(default)]
    pub cmd: Vec<String>,
    #[serde(default)]
    pub body: Vec<Body>,
    #[serde(default = "yes")]
    pub terminated: bool,
}

fn yes() -> bool {
    true
}

#[derive(Clone, Debug, PartialEq, Serialize, Deserialize)]
pub enum Block {
    FrontMatter {
        lines: Vec<String>,
        #[serde(default)]
        defaults: Cfg,
        #[serde(default = "yes")]
        terminated: bool,
    },
    Line {
        text: String,
        role: Role,
    },
    /// fenced block of another language; `info` empty = no language
    Foreign {
        fence: usize,
        info: String,
        body: Vec<String>,
        #[serde(default = "yes")]
        terminated: bool,
    },
    Scrut(Scrut),
    /// constructs scrut does not document: only "does not crash" is judged
    Undoc {
        what: String,
        lines: Vec<String>,
    },
}

#[derive(Clone, Debug, PartialEq, Serialize, Deserialize)]
pub struct MdDoc {
    pub blocks: Vec<Block>,
    #[serde(default)]
    pub crlf: bool,
    #[serde(default = "yes")]
    pub final_newline: bool,
}

/// where a rendered line comes from
#[derive(Clone, Debug, PartialEq, Eq)]
pub enum Part {
    Outside,
    ScrutFence,
    ScrutComment,
    ScrutCmd,
    ScrutBody,
    ScrutClose,
}

#[derive(Clone, Debug)]
pub struct RLine {
    pub text: String,
    pub block: usize,
    pub part: Part,
}

impl Scrut {
    pub fn fence_line(&self) -> String {
        let ticks = "`".repeat(self.fence);
        match (&self.cfg_text, self.ws.as_str()) {
            (Some(c), "cfg-trail") => format!("{ticks}scrut {c} "),
            (Some(c), "lead") => format!("{ticks} scrut {c}"),
            (Some(c), _) => format!("{ticks}scrut {c}"),
            (None, "trail") => format!("{ticks}scrut  "),
            (None, "lead") => format!("{ticks} scrut"),
            (None, _) => format!("{ticks}scrut"),
        }
    }
    pub fn has_test(&self) -> bool {
        !self.cmd.is_empty()
    }
    /// content the generator declares invalid (must be reported as an error)
    pub fn invalid(&self) -> Option<&'static str> {
        // an inline configuration that is not `{..}` up to the end of the line
        if let Some(c) = &self.cfg_text {
            if !(c.starts_with('{') && c.ends_with('}')) {
                return Some("bad-inline-config");
            }
        }
        let exits = self.body.iter().filter(|b| matches!(b, Body::Exit(_))).count();
        if exits > 1 {
            return Some("two-exit-codes");
        }
        for b in &self.body {
            if let Body::Exp { class, .. } = b {
                if class == "bad-regex" {
                    return Some("bad-regex");
                }
                if class == "bad-escaped" {
                    return Some("bad-escaped");
                }
            }
        }
        if self.cmd.is_empty() && self.body.iter().any(|b| matches!(b, Body::Exp { .. })) {
            return Some("no-dollar");
        }
        if self.cmd.is_empty() && exits > 0 {
            // an exit code without a command: not documented either way
            return Some("no-dollar");
        }
        None
    }
    fn lines(&self, block: usize, out: &mut Vec<RLine>) {
        let mut push = |text: String, part: Part| out.push(RLine { text, block, part });
        push(self.fence_line(), Part::ScrutFence);
        for c in &self.comments {
            push(c.clone(), Part::ScrutComment);
        }
        for (i, c) in self.cmd.iter().enumerate() {
            push(format!("{}{c}", if i == 0 { "$ " } else { "> " }), Part::ScrutCmd);
        }
        for b in &self.body {
            match b {
                Body::Exp { text, .. } => push(text.clone(), Part::ScrutBody),
                Body::Exit(n) => push(format!("[{n}]"), Part::ScrutBody),
            }
        }
        if self.terminated {
            // "close-long": a closing fence may be longer than the opening one
            let n = if self.ws == "close-long" { self.fence + 1 } else { self.fence };
            push("`".repeat(n), Part::ScrutClose);
        }
    }
}

impl Block {
    fn lines(&self, idx: usize, out: &mut Vec<RLine>) {
        let mut push = |text: String| {
            out.push(RLine {
                text,
                block: idx,
                part: Part::Outside,
            })
        };
        match self {
            Block::FrontMatter { lines, terminated, .. } => {
                push("---".into());
                for l in lines {
                    push(l.clone());
                }
                if *terminated {
                    push("---".into());
                }
            }
            Block::Line { text, .. } => push(text.clone()),
            Block::Foreign {
                fence,
                info,
                body,
                terminated,
            } => {
                push(format!("{}{info}", "`".repeat(*fence)));
                for l in body {
                    push(l.clone());
                }
                if *terminated {
                    push("`".repeat(*fence));
                }
            }
            Block::Scrut(s) => s.lines(idx, out),
            Block::Undoc { lines, .. } => {
                for l in lines {
                    push(l.clone());
                }
            }
        }
    }

    /// coarse kind, used for the distinctness rule (block-kind sequence)
    pub fn kind(&self) -> &'static str {
        match self {
            Block::FrontMatter { .. } => "fm",
            Block::Line { role, .. } => match role {
                Role::Blank => "blank",
                Role::Heading { .. } => "heading",
                Role::Para { .. } => "para",
                Role::NonPara { .. } => "nonpara",
                Role::ParaLike { .. } => "paralike",
            },
            Block::Foreign { info, .. } => {
                if info.is_empty() {
                    "bare"
                } else {
                    "foreign"
                }
            }
            Block::Scrut(_) => "scrut",
            Block::Undoc { .. } => "undoc",
        }
    }

    /// structural feature tags (signature material)
    pub fn features(&self) -> Vec<String> {
        let mut f = vec![];
        match self {
            Block::FrontMatter { lines, terminated, .. } => {
                if !*terminated {
                    f.push("fm:unterminated".into());
                } else if lines.is_empty() {
                    f.push("fm:empty".into());
                } else {
                    f.push("fm".into());
                }
            }
            Block::Line { role, .. } => match role {
                Role::Blank => f.push("blank".into()),
                Role::Heading { .. } => f.push("heading".into()),
                Role::Para { .. } => f.push("para".into()),
                Role::NonPara { class } => f.push(format!("line:{class}")),
                Role::ParaLike { class } => f.push(format!("line:{class}")),
            },
            Block::Foreign {
                fence,
                info,
                body,
                terminated,
            } => {
                let base = if info.is_empty() { "bare" } else { "foreign" };
                let mut t = base.to_string();
                if *fence > 3 {
                    t.push_str(":long");
                }
                f.push(t);
                if !info.is_ascii() {
                    f.push(format!("{base}:nonascii"));
                }
                if info.contains('{') {
                    f.push(format!("{base}:braces"));
                }
                if !*terminated {
                    f.push(format!("{base}:unterminated"));
                }
                if body.iter().any(|l| l.starts_with("```")) {
                    f.push(format!("{base}:nested-fence"));
                }
            }
            Block::Scrut(s) => {
                let mut any = false;
                let mut add = |t: &str, any: &mut bool| {
                    f.push(format!("scrut:{t}"));
                    *any = true;
                };
                if !s.terminated {
                    add("unterminated", &mut any);
                }
                if s.cmd.is_empty() && s.body.is_empty() {
                    add(if s.comments.is_empty() { "empty" } else { "comment-only" }, &mut any);
                }
                if let Some(k) = s.invalid() {
                    add(k, &mut any);
                }
                match s.ws.as_str() {
                    "trail" => add("ws-trail", &mut any),
                    "lead" => add("ws-lead", &mut any),
                    "close-long" => add("close-long", &mut any),
                    "cfg-trail" if s.cfg_text.is_some() => add("cfg-ws-trail", &mut any),
                    _ => {}
                }
                if s.cfg_text.is_some() {
                    add("cfg", &mut any);
                }
                if s.fence > 3 {
                    add("long", &mut any);
                }
                if !s.comments.is_empty() && !(s.cmd.is_empty() && s.body.is_empty()) {
                    add("comments", &mut any);
                }
                if s.cmd.len() > 1 {
                    add("multi-cmd", &mut any);
                }
                if s.body.iter().any(|b| matches!(b, Body::Exit(_))) {
                    add("exit", &mut any);
                }
                for b in &s.body {
                    if let Body::Exp { class, .. } = b {
                        if !class.is_empty() && class != "plain" {
                            let t = format!("scrut:exp:{class}");
                            if !f.contains(&t) {
                                f.push(t);
                            }
                            any = true;
                        }
                    }
                }
                if !any {
                    f.push("scrut".into());
                }
            }
            Block::Undoc { what, .. } => f.push(format!("undoc:{what}")),
        }
        f
    }
}

impl MdDoc {
    pub fn rlines(&self) -> Vec<RLine> {
        let mut out = vec![];
        for (i, b) in self.blocks.iter().enumerate() {
            b.lines(i, &mut out);
        }
        out
    }
    pub fn render(&self) -> String {
        join_lines(self.rlines().iter().map(|l| l.text.as_str()), self.crlf, self.final_newline)
    }
    /// sorted, de-duplicated feature tags of all blocks (+ document flags)
    pub fn features(&self) -> Vec<String> {
        let mut f: Vec<String> = self.blocks.iter().flat_map(|b| b.features()).collect();
        if self.crlf {
            f.push("crlf".into());
        }
        if !self.final_newline {
            f.push("no-final-newline".into());
        }
        f.sort();
        f.dedup();
        f
    }
    pub fn kinds(&self) -> Vec<&'static str> {
        self.blocks.iter().map(|b| b.kind()).collect()
    }
    pub fn malformation(&self) -> String {
        let mut m: Vec<String> = self
            .features()
            .into_iter()
            .filter(|f| {
                f.contains("unterminated")
                    || f.contains("empty")
                    || f.contains("two-exit")
                    || f.contains("bad-")
                    || f.contains("no-dollar")
                    || f.starts_with("bare")
                    || f.starts_with("undoc")
                    || f == "crlf"
                    || f.contains("ws-")
            })
            .collect();
        m.sort();
        m.join("+")
    }
}

pub fn join_lines<'a>(lines: impl Iterator<Item = &'a str>, crlf: bool, final_newline: bool) -> String {
    let eol = if crlf { "\r\n" } else { "\n" };
    let v: Vec<&str> = lines.collect();
    let mut s = v.join(eol);
    if final_newline && !v.is_empty() {
        s.push_str(eol);
    }
    s
}

// ---------------------------------------------------------------------------------------------
// expected reading of a Markdown document
// ---------------------------------------------------------------------------------------------

#[derive(Clone, Debug, Default)]
pub struct TitleRule {
    /// exactly these titles are right
    pub exact: Vec<String>,
    /// no title candidate since the previous test: "" or the previous test's title
    pub allow_prev: bool,
    /// ambiguity in the segment: additionally any in-order selection of these lines, or ""
    pub relaxed: Option<Vec<String>>,
}

#[derive(Clone, Debug)]
pub struct ExpTest {
    pub shell: String,
    pub exps: Vec<(String, Option<(String, bool, bool)>)>,
    pub exit: Option<i32>,
    pub cfg: Cfg,
    /// 1-based line of the `$` line
    pub line: usize,
    pub title: TitleRule,
    /// index of the block (Markdown) / item (Cram) the test comes from
    pub block: usize,
}

#[derive(Clone, Debug, Default)]
pub struct Expected {
    /// document contains undocumented constructs: only the no-crash clause is judged
    pub nocrash_only: Option<String>,
    /// generator-declared invalid content: must be an error
    pub must_err: Option<String>,
    /// an error is an acceptable answer (unterminated construct, fence without language of >= 4 backticks)
    pub err_ok: Option<String>,
    /// configuration of the tests cannot be predicted (front-matter not terminated)
    pub cfg_unknown: bool,
    pub tests: Vec<ExpTest>,
}

fn title_suffixes(run: &[(String, bool)]) -> Vec<String> {
    let n = run.len();
    let mut bounds = vec![0usize];
    for (i, (_, heading)) in run.iter().enumerate() {
        if *heading {
            bounds.push(i);
            if i + 1 < n {
                bounds.push(i + 1);
            }
        }
    }
    bounds.sort();
    bounds.dedup();
    bounds
        .into_iter()
        .map(|b| run[b..].iter().map(|(t, _)| t.as_str()).collect::<Vec<_>>().join("\n"))
        .collect()
}

fn b_is_blank_fm(b: &Block) -> bool {
    matches!(b, Block::FrontMatter { lines, .. } if lines.iter().all(|l| l.trim().is_empty() || l.trim_start().starts_with('#')))
}

pub fn expect_md(doc: &MdDoc) -> Expected {
    let mut e = Expected::default();
    let mut line_no = 0usize; // lines rendered so far
    let mut defaults = Cfg::default();
    // title state of the current segment (since the previous test)
    let mut run: Vec<(String, bool)> = vec![];
    let mut last_run: Vec<(String, bool)> = vec![];
    let mut seg_lines: Vec<String> = vec![];
    let mut relaxed = false;
    let n = doc.blocks.len();
    for (i, b) in doc.blocks.iter().enumerate() {
        let mut tmp = vec![];
        b.lines(i, &mut tmp);
        let first_line = line_no + 1;
        line_no += tmp.len();
        match b {
            Block::FrontMatter {
                defaults: d, terminated, ..
            } => {
                if *terminated {
                    defaults = d.clone();
                    if b_is_blank_fm(b) {
                        // YAML without content: rejecting it is "fails with an error"
                        e.err_ok.get_or_insert("fm:empty".into());
                    }
                } else {
                    e.err_ok.get_or_insert("fm:unterminated".into());
                    e.cfg_unknown = true;
                }
            }
            Block::Line { text, role } => match role {
                Role::Heading { title } => {
                    run.push((title.clone(), true));
                    seg_lines.push(title.clone());
                }
                Role::Para { title } => {
                    run.push((title.clone(), false));
                    seg_lines.push(title.clone());
                }
                Role::Blank | Role::NonPara { .. } | Role::ParaLike { .. } => {
                    if !run.is_empty() {
                        last_run = std::mem::take(&mut run);
                    }
                    if let Role::ParaLike { .. } = role {
                        relaxed = true;
                        seg_lines.push(text.trim().to_string());
                    }
                    if let Role::NonPara { .. } = role {
                        seg_lines.push(text.trim().to_string());
                    }
                }
            },
            Block::Foreign {
                fence, info, terminated, ..
            } => {
                // a run of title lines that touches a fenced block: the parser's reading
                // (joined across the block) and the nearest-paragraph reading differ
                relaxed = true;
                if !run.is_empty() {
                    last_run = std::mem::take(&mut run);
                }
                if info.is_empty() {
                    if *fence == 3 && *terminated {
                        e.must_err.get_or_insert("bare-fence".into());
                    } else {
                        e.err_ok.get_or_insert("bare:long".into());
                    }
                }
                if !*terminated {
                    e.err_ok.get_or_insert("foreign:unterminated".into());
                }
            }
            Block::Undoc { what, .. } => {
                e.nocrash_only.get_or_insert(what.clone());
            }
            Block::Scrut(s) => {
                if let Some(k) = s.invalid() {
                    e.must_err.get_or_insert(k.into());
                }
                if !s.terminated {
                    e.err_ok.get_or_insert("scrut:unterminated".into());
                    if i + 1 != n {
                        // an open block in the middle swallows what follows: not generated,
                        // but a shrunk or hand-written case may contain it
                        e.nocrash_only.get_or_insert("unterminated-not-last".into());
                    }
                }
                if !s.has_test() {
                    if !run.is_empty() {
                        last_run = std::mem::take(&mut run);
                    }
                    relaxed = true;
                    continue;
                }
                let fin = if run.is_empty() { &last_run } else { &run };
                let mut title = TitleRule::default();
                if fin.is_empty() {
                    title.allow_prev = true;
                    title.exact.push(String::new());
                } else {
                    title.exact = title_suffixes(fin);
                }
                if relaxed {
                    title.relaxed = Some(seg_lines.clone());
                }
                let dollar = first_line + 1 + s.comments.len();
                let mut exps = vec![];
                let mut exit = None;
                for b in &s.body {
                    match b {
                        Body::Exp { text, kind, .. } => exps.push((text.clone(), kind.clone())),
                        Body::Exit(c) => exit = Some(*c),
                    }
                }
                e.tests.push(ExpTest {
                    shell: s.cmd.join("\n"),
                    exps,
                    exit,
                    cfg: s.cfg.over(&defaults).over(&Cfg::markdown_defaults()),
                    line: dollar,
                    title,
                    block: i,
                });
                run.clear();
                last_run.clear();
                seg_lines.clear();
                relaxed = false;
            }
        }
        // unterminated constructs other than the last block are never generated
        let open = match b {
            Block::Foreign { terminated, .. } => !*terminated,
            Block::FrontMatter { .. } => false,
            _ => false,
        };
        if open && i + 1 != n {
            e.nocrash_only.get_or_insert("unterminated-not-last".into());
        }
    }
    e
}

// ---------------------------------------------------------------------------------------------
// Markdown generator
// ---------------------------------------------------------------------------------------------

#[derive(Clone, Debug)]
pub struct MdOpts {
    /// only plain / glob expectation lines, no explicit `[0]` (C10: syntax collisions are C09's)
    pub benign: bool,
    pub invalid: bool,
    pub undoc: bool,
    pub truncate: bool,
    pub max_blocks: usize,
    /// at least one scrut block with a command
    pub need_test: bool,
}

impl Default for MdOpts {
    fn default() -> Self {
        MdOpts {
            benign: false,
            invalid: true,
            undoc: true,
            truncate: true,
            max_blocks: 9,
            need_test: false,
        }
    }
}

const WORDS: &[&str] = &["Alpha", "beta", "Gamma", "delta", "Über", "émile", "Ωmega", "日本語", "zeta", "Iota"];

struct MdGen<'a> {
    rng: &'a mut Rng,
    opts: MdOpts,
    counter: usize,
    /// line endings of the document (decided first: a line may end in a CR of its own only then)
    crlf: bool,
}

fn blank() -> Block {
    Block::Line {
        text: String::new(),
        role: Role::Blank,
    }
}

impl MdGen<'_> {
    fn next(&mut self) -> usize {
        self.counter += 1;
        self.counter
    }

    fn heading(&mut self) -> Block {
        let k = self.next();
        let level = self.rng.range(1, 6);
        let w = *self.rng.pick(WORDS);
        let title = match self.rng.below(5) {
            0 => format!("{w} heading {k}"),
            1 => format!("Heading {k}: `code` and more"),
            2 => format!("{k}. numbered heading"),
            3 => format!("Heading {k} with $ and > and [1]"),
            _ => format!("Test {k}"),
        };
        let sep = if self.rng.chance(1, 8) { "  " } else { " " };
        // up to three blanks in front of a heading or a paragraph do not change what it is
        let indent = if self.rng.chance(1, 8) { " ".repeat(self.rng.range(1, 3)) } else { String::new() };
        Block::Line {
            text: format!("{indent}{}{sep}{title}", "#".repeat(level)),
            role: Role::Heading { title },
        }
    }

    fn para_line(&mut self) -> Block {
        let k = self.next();
        let w = *self.rng.pick(WORDS);
        let title = match self.rng.below(6) {
            0 => format!("{w} paragraph {k} with `inline code` inside"),
            1 => format!("{w} text {k} ending in a backtick run ```"),
            2 => format!("{w} line {k}: see ``double `tick` code`` here"),
            3 => format!("{w} says $ echo {k}"),
            4 => format!("{w} {k} (glob)"),
            _ => format!("{w} paragraph {k}"),
        };
        let indent = if self.rng.chance(1, 8) { " ".repeat(self.rng.range(1, 3)) } else { String::new() };
        Block::Line {
            text: format!("{indent}{title}"),
            role: Role::Para { title },
        }
    }

    fn nonpara(&mut self) -> Block {
        let k = self.next();
        let (class, text) = match self.rng.below(9) {
            0 => ("list", format!("- item {k}")),
            1 => ("list", format!("* item {k}")),
            2 => ("olist", format!("{k}. step")),
            3 => ("quote", format!("> quoted {k}")),
            4 => ("rule", "***".to_string()),
            // a rule of dashes (only generated behind a blank line, see `gen_doc`): not a front-matter once content started
            8 => ("rule-dashes", "---".to_string()),
            5 => ("table", format!("| a{k} | b |")),
            6 => ("html", format!("<!-- comment {k} -->")),
            _ => ("ref", format!("[ref{k}]: http://example.com/{k}")),
        };
        Block::Line {
            text,
            role: Role::NonPara { class: class.into() },
        }
    }

    fn paralike(&mut self) -> Block {
        let k = self.next();
        let (class, text) = match self.rng.below(11) {
            // inline code at the start of a line is not a fence, however many backticks it uses
            8 => ("bt3", format!("```inline{k}``` code starts this line")),
            9 => ("bt3", format!("````x{k}```` four ticks")),
            10 => ("bt3", format!("```sh{k}` odd ticks")),
            0 => ("bt1", format!("`code{k}` starts this line")),
            1 => ("bt2", format!("``inline{k}`` text")),
            2 => ("bt2", format!("`` `tick` {k} `` is how a backtick is written")),
            3 => ("bt1", format!("`scrut` blocks are tests ({k})")),
            4 => ("digit", format!("{k}24 was a year")),
            5 => ("emph", format!("**bold {k}** text")),
            6 => ("paren", format!("(aside {k})")),
            _ => ("bt2", format!("``x{k}``")),
        };
        Block::Line {
            text,
            role: Role::ParaLike { class: class.into() },
        }
    }

    fn foreign(&mut self) -> Block {
        let k = self.next();
        let fence = *self.rng.pick(&[3, 3, 3, 4, 5, 6]);
        let info = self
            .rng
            .pick(&["bash", "sh", "text", "python", "json", "ü", "日本語", "ü{x}", "json {a: 1}", "c++", "scrutx", "console"])
            .to_string();
        let mut body = vec![];
        let nb = self.rng.below(5);
        for _ in 0..nb {
            let l = match self.rng.below(9) {
                0 => format!("$ echo not-a-test-{k}"),
                1 => String::new(),
                2 => "# not a heading".to_string(),
                3 => "---".to_string(),
                4 => "[1]".to_string(),
                5 => "`` two ticks".to_string(),
                6 => "Looks like a paragraph".to_string(),
                _ => format!("output {k}"),
            };
            body.push(l);
        }
        if fence > 3 && self.rng.chance(1, 2) {
            body.push("```scrut".into());
            body.push(format!("$ echo nested-{k}"));
            body.push(format!("nested-{k}"));
            body.push("```".into());
        }
        Block::Foreign {
            fence,
            info,
            body,
            terminated: true,
        }
    }

    fn bare(&mut self, long: bool) -> Block {
        let k = self.next();
        let fence = if long { self.rng.range(4, 6) } else { 3 };
        let mut body = vec![format!("plain {k}")];
        if long && self.rng.chance(2, 3) {
            body.push("```scrut".into());
            body.push(format!("$ echo example-{k}"));
            body.push("```".into());
        }
        Block::Foreign {
            fence,
            info: String::new(),
            body,
            terminated: true,
        }
    }

    fn exp_line(&mut self, fence: usize, pos: usize) -> Body {
        let k = self.next();
        let crlf = self.crlf;
        let rng = &mut *self.rng;
        let mk = |text: String, class: &str, kind: Option<(&str, bool, bool)>| Body::Exp {
            text,
            kind: kind.map(|(k, o, m)| (k.to_string(), o, m)),
            class: class.to_string(),
        };
        let eq = Some(("equal", false, false));
        if self.opts.benign {
            return if rng.chance(1, 5) {
                mk(format!("glob{k}* (glob)"), "glob", Some(("glob", false, false)))
            } else {
                mk(format!("out {k}"), "plain", eq)
            };
        }
        match rng.below(56) {
            // a bracketed number at the end of other text is text
            53 => mk(format!("items {k} [3]"), "bracket-trail", eq),
            54 => mk(format!("array{k}[0]"), "bracket-trail", eq),
            55 => mk("x [127]".into(), "bracket-trail", eq),
            // a bracketed number followed by blanks is text, not an exit code
            46 => mk(format!("[{}] ", k % 3), "bracket-ws", eq),
            47 => mk("[7]\t".into(), "bracket-ws", eq),
            // .. and so is a signed one
            48 => mk(format!("[-{}]", 1 + k % 3), "bracket-signed", eq),
            49 => mk("[+2]".into(), "bracket-signed", eq),
            // `>` that is not followed by a blank never continues the command, not even directly behind it
            50 => mk(format!(">>> {k} + 1"), "gt-nospace", eq),
            51 => mk(format!(">quoted{k}"), "gt-nospace", eq),
            52 => mk(">".into(), "gt-nospace", eq),
            // a carriage return that is not part of the line ending is text of the line
            40 => mk(format!("loading 10%\rloading 100% {k}"), "cr-inside", eq),
            41 if crlf => mk(format!("done {k}\r"), "cr-end", eq),
            41 => mk(format!("\rstart {k}"), "cr-inside", eq),
            // backticks behind leading blanks: with info text (never a closing fence) or behind
            // four and more blanks (never a fence)
            42 => mk(format!("{}```sh", " ".repeat(rng.range(1, 3))), "indented-ticks-info", eq),
            43 => mk(format!("{}``````text {k}", " ".repeat(rng.range(1, 3))), "indented-ticks-info", eq),
            44 => mk(format!("{}```", " ".repeat(rng.range(4, 6))), "indented4-ticks", eq),
            45 => mk(format!("{}`````` x{k}", " ".repeat(rng.range(4, 6))), "indented4-ticks", eq),
            37 => mk(format!("int main{k} ()"), "paren-empty", eq),
            38 => mk(" ()".into(), "paren-empty", eq),
            39 => mk(format!("call{k} (glob) ()"), "paren-empty", eq),
            32 | 33 => mk(rng.pick(BIG_BRACKETS).to_string(), "big-bracket", eq),
            34 if pos >= 1 => mk(format!("> later {k}"), "gt", eq),
            0 => mk(String::new(), "blank", eq),
            1 => mk("   ".into(), "ws-only", eq),
            2 => mk(format!("  lead {k}"), "lead-ws", eq),
            3 => mk(format!("trail {k}  "), "trail-ws", eq),
            4 => mk(format!("$ not a command {k}"), "dollar", eq),
            5 if pos >= 1 => mk(format!("> later {k}"), "gt", eq),
            6 => mk(format!("# hash {k}"), "hash", eq),
            7 => mk("[abc]".into(), "bracket", eq),
            8 => mk(format!("[1] x{k}"), "bracket", eq),
            9 => mk(format!("foo{k}* (glob)"), "glob", Some(("glob", false, false))),
            10 => mk(format!("bar{k}? (glob+)"), "glob", Some(("glob", false, true))),
            11 => mk(format!("^re[0-9]+{k}$ (regex)"), "regex", Some(("regex", false, false))),
            12 => mk(format!("opt {k} (?)"), "quant", Some(("equal", true, false))),
            13 => mk(format!("many {k} (*)"), "quant", Some(("equal", true, true))),
            14 => mk(format!("plus {k} (+)"), "quant", Some(("equal", false, true))),
            15 => mk(format!("eq {k} (equal)"), "equal", Some(("equal", false, false))),
            16 => mk(format!("ne {k} (no-eol)"), "no-eol", Some(("no-eol", false, false))),
            17 => mk(format!("es\\t{k}\\x00 (escaped)"), "escaped", Some(("escaped", false, false))),
            18 => mk(format!("al{k}.* (re?)"), "regex", Some(("regex", true, false))),
            19 => mk(format!("g{k}[ab] (gl*)"), "glob", Some(("glob", true, true))),
            20 => mk(format!("foo {k} (bar)"), "paren", eq),
            21 => mk(format!("foo{k}(glob)"), "paren", eq),
            22 => mk(format!("foo {k} (glob) (glob)"), "glob", Some(("glob", false, false))),
            23 => mk(format!("ünï çödé {k} 日本"), "unicode", eq),
            24 => mk(format!("tab\there {k}"), "tab", eq),
            25 => mk(format!("`single {k}"), "bt", eq),
            26 => mk(format!("``double`` {k}"), "bt", eq),
            27 => mk("---".into(), "dashes", eq),
            28 => mk(format!("{{curly: {k}}}"), "curly", eq),
            29 if fence > 3 => mk("```scrut".into(), "nested-fence", eq),
            30 if fence > 3 => mk("```".into(), "nested-fence", eq),
            31 => mk(format!("<!-- {k} -->"), "html", eq),
            _ => mk(format!("out {k}"), "plain", eq),
        }
    }

    fn scrut(&mut self) -> Scrut {
        let k = self.next();
        let fence = *self.rng.pick(&[3, 3, 3, 3, 3, 4, 4, 5, 6]);
        let mut s = Scrut {
            fence,
            ws: String::new(),
            cfg_text: None,
            cfg: Cfg::default(),
            comments: vec![],
            cmd: vec![],
            body: vec![],
            terminated: true,
        };
        if self.rng.chance(1, 4) {
            if self.rng.chance(1, 8) {
                s.cfg_text = Some("{}".into());
            } else {
                let (cfg, pairs) = gen_cfg(self.rng, "I", self.opts.benign);
                s.cfg_text = Some(cfg_flow_text(self.rng, &pairs));
                s.cfg = cfg;
            }
        }
        if self.opts.invalid && self.rng.chance(1, 50) {
            // a brace that is never closed, text behind the closing brace
            s.cfg_text = Some(self.rng.pick(&["{timeout: 3s", "{timeout: 1s} trailing", "{keep_crlf: true", "{detached: true} {}x"]).to_string());
            s.cfg = Cfg::default();
        }
        match self.rng.below(12) {
            0 => s.ws = "trail".into(),
            1 => s.ws = "lead".into(),
            2 => s.ws = "cfg-trail".into(),
            3 => s.ws = "close-long".into(),
            _ => {}
        }
        if s.cfg_text.is_some() && s.ws == "trail" {
            s.ws = "cfg-trail".into();
        }
        if s.cfg_text.is_none() && s.ws == "cfg-trail" {
            s.ws = "trail".into();
        }
        if self.rng.chance(1, 4) {
            for _ in 0..self.rng.range(1, 2) {
                let c = match self.rng.below(4) {
                    0 => "#".to_string(),
                    1 => format!("#nospace {k}"),
                    2 => "# $ echo commented".to_string(),
                    _ => format!("# comment {k}"),
                };
                s.comments.push(c);
            }
        }
        // block shapes without a test
        let shape = self.rng.below(40);
        if shape == 0 {
            s.comments.clear();
            return s; // empty block
        }
        if shape == 1 {
            if s.comments.is_empty() {
                s.comments.push(format!("# only a comment {k}"));
            }
            return s;
        }
        if shape == 3 && self.opts.invalid {
            // an exit code without a command (it must not end up at the next test)
            s.body.push(Body::Exit(*self.rng.pick(&[1, 3])));
            return s;
        }
        if shape == 2 && self.opts.invalid {
            // expectations without a command
            s.body.push(Body::Exp {
                text: format!("orphan {k}"),
                kind: None,
                class: "plain".into(),
            });
            return s;
        }
        let first = match self.rng.below(8) {
            0 => format!("echo cmd{k} 'a  b'  "),
            1 => format!("printf '%s\\n' \"$X{k}\" | cat"),
            2 => format!("echo cmd{k} $ dollar > file"),
            3 => format!("echo `date` cmd{k}"),
            4 => format!("echo cmd{k} # trailing comment"),
            5 => format!("echo ünï cmd{k}"),
            _ => format!("echo cmd{k}"),
        };
        // now and then the command is empty (`$ ` and nothing else): still a test
        let first = if !self.opts.benign && self.rng.chance(1, 40) { String::new() } else { first };
        s.cmd.push(first);
        if self.rng.chance(1, 4) {
            for j in 0..self.rng.range(1, 2) {
                let c = match self.rng.below(4) {
                    0 => format!("  indented {j}"),
                    1 => "> nested gt".to_string(),
                    2 => "$ nested dollar".to_string(),
                    _ => format!("cont{j} \\"),
                };
                s.cmd.push(c);
            }
        }
        let nb = *self.rng.pick(&[0, 1, 1, 2, 2, 3, 4, 5]);
        for pos in 0..nb {
            let b = self.exp_line(fence, pos);
            s.body.push(b);
        }
        if self.rng.chance(3, 10) {
            let codes: &[i32] = if self.opts.benign { &[1, 2, 127, 255] } else { &[0, 1, 2, 127, 255] };
            let code = *self.rng.pick(codes);
            if s.body.len() >= 2 && self.rng.chance(1, 4) && !self.opts.benign {
                let at = self.rng.range(1, s.body.len() - 1);
                // a `> x` line directly behind the exit code stays an expectation
                s.body.insert(at, Body::Exit(code));
            } else if !self.opts.benign && self.rng.chance(1, 4) {
                // the exit code directly behind the command ends the command: a `> x` line that
                // follows is output, not a continuation
                s.body.insert(0, Body::Exit(code));
                if self.rng.chance(3, 4) {
                    s.body.insert(
                        1,
                        Body::Exp {
                            text: format!("> after exit {k}"),
                            kind: Some(("equal".into(), false, false)),
                            class: "gt-after-exit".into(),
                        },
                    );
                }
            } else {
                s.body.push(Body::Exit(code));
            }
        }
        if self.opts.invalid && self.rng.chance(1, 40) {
            s.body.push(Body::Exit(3));
            s.body.push(Body::Exit(4));
            // two exit codes: keep exactly two
            let mut seen = 0;
            s.body.retain(|b| {
                if matches!(b, Body::Exit(_)) {
                    seen += 1;
                    seen <= 2
                } else {
                    true
                }
            });
        } else if self.opts.invalid && self.rng.chance(1, 40) {
            let (text, class) = match self.rng.below(3) {
                0 => ("unclosed( (regex)", "bad-regex"),
                1 => ("[a-z (re)", "bad-regex"),
                _ => ("bad \\xZZ (escaped)", "bad-escaped"),
            };
            s.body.push(Body::Exp {
                text: text.into(),
                kind: None,
                class: class.into(),
            });
        }
        s
    }

    fn front_matter(&mut self) -> Block {
        let mut lines = vec![];
        let mut defaults = Cfg::default();
        match self.rng.below(8) {
            0 => {} // empty
            1 => lines.push("# only a comment".into()),
            _ => {
                if self.rng.chance(1, 3) {
                    lines.push(format!("total_timeout: {}", self.rng.pick(DURATIONS).0));
                }
                if self.rng.chance(3, 4) {
                    let (cfg, pairs) = gen_cfg(self.rng, "D", self.opts.benign);
                    defaults = cfg;
                    lines.push("defaults:".into());
                    lines.extend(cfg_block_lines(&pairs, 2));
                }
                if self.rng.chance(1, 4) {
                    lines.push("shell: bash".into());
                }
                if self.rng.chance(1, 5) {
                    lines.insert(0, "# document configuration".into());
                }
                if lines.is_empty() {
                    lines.push("shell: bash".into());
                }
                // blank lines inside the front-matter, also directly in front of the closing `---`
                if self.rng.chance(1, 5) {
                    lines.push(String::new());
                }
                if self.rng.chance(1, 10) {
                    let at = self.rng.below(lines.len() + 1);
                    lines.insert(at, String::new());
                }
            }
        }
        Block::FrontMatter {
            lines,
            defaults,
            terminated: true,
        }
    }

    fn undoc(&mut self) -> Block {
        let k = self.next();
        let (what, lines): (&str, Vec<String>) = match self.rng.below(13) {
            0 => ("indented-fence", vec!["  ```scrut".into(), format!("  $ echo u{k}"), "  ```".into()]),
            1 => ("tilde-fence", vec!["~~~scrut".into(), format!("$ echo u{k}"), "~~~".into()]),
            2 => ("setext", vec![format!("Setext title {k}"), "=====".into()]),
            3 => ("setext", vec![format!("Setext title {k}"), "---".into()]),
            4 => ("info-words", vec!["```scrut title=\"x\"".into(), format!("$ echo u{k}"), "```".into()]),
            5 => ("info-words", vec!["```scrut ü{x: 1}".into(), format!("$ echo u{k}"), "```".into()]),
            6 => ("blank-before-dollar", vec!["```scrut".into(), "".into(), format!("$ echo u{k}"), "```".into()]),
            7 => ("exp-before-dollar", vec!["```scrut".into(), "early".into(), format!("$ echo u{k}"), "```".into()]),
            8 => ("cfg-open-brace", vec!["```scrut {timeout: 3s".into(), format!("$ echo u{k}"), "```".into()]),
            9 => ("para-continuation", vec![format!("Paragraph {k}"), "2nd line starts with a digit".into()]),
            10 => ("fm-after-blank", vec!["".into(), "---".into(), "shell: bash".into(), "---".into()]),
            11 if self.rng.bool() => ("indented-close", vec!["```scrut".into(), format!("$ echo u{k}"), "  ```".into(), "out".into(), "```".into()]),
            11 => ("empty-command", vec!["```scrut".into(), "$ ".into(), "```".into()]),
            _ => {
                const SOUP: &[&str] = &[
                    "```", "````", "``", "`", "---", "$ ", "> ", "#", "[1]", "{", "}", "scrut", "ü", " ", "\t", " (glob)", " (regex)", "((", "```scrut", "```scrut {",
                    "}", "# ", "$", "x", "é", "\u{a0}", "~~~",
                ];
                let n = self.rng.range(1, 8);
                let mut ls = vec![];
                for _ in 0..n {
                    let m = self.rng.range(1, 4);
                    let mut l = String::new();
                    for _ in 0..m {
                        l.push_str(*self.rng.pick(SOUP));
                    }
                    ls.push(l);
                }
                ("soup", ls)
            }
        };
        Block::Undoc { what: what.into(), lines }
    }

    fn doc(&mut self) -> MdDoc {
        let mut blocks = vec![];
        self.crlf = self.rng.chance(1, 8);
        if self.rng.chance(1, 4) {
            blocks.push(self.front_matter());
            if self.rng.chance(3, 4) {
                blocks.push(blank());
            }
        }
        let n = self.rng.range(1, self.opts.max_blocks);
        let with_undoc = self.opts.undoc && self.rng.chance(1, 9);
        let undoc_at = if with_undoc { self.rng.below(n) } else { usize::MAX };
        let mut have_test = false;
        for j in 0..n {
            if j == undoc_at {
                blocks.push(self.undoc());
                blocks.push(blank());
                continue;
            }
            let pick = self.rng.weighted(&[10, 12, 6, 6, 8, 30, 1, 2]);
            match pick {
                0 => blocks.push(self.heading()),
                1 => {
                    for _ in 0..*self.rng.pick(&[1, 1, 2, 3]) {
                        blocks.push(self.para_line());
                    }
                }
                2 => {
                    let mut b = self.nonpara();
                    // a rule of dashes only behind a blank line or a fenced block (behind text it would be a setext
                    // underline), and never as the first line (front-matter)
                    // (leading blank lines do not count as content: scrut reads a `---` behind them as front-matter, which
                    // the statement does not rule out)
                    let behind_ok = matches!(blocks.last(), Some(Block::Line { role: Role::Blank, .. }) | Some(Block::Scrut(_)) | Some(Block::Foreign { .. }))
                        && blocks.iter().any(|b| !matches!(b, Block::Line { role: Role::Blank, .. }));
                    if let Block::Line { text, role: Role::NonPara { class } } = &mut b {
                        if class == "rule-dashes" && !behind_ok {
                            *text = "***".into();
                            *class = "rule".into();
                        }
                    }
                    blocks.push(b);
                }
                3 => blocks.push(self.paralike()),
                4 => blocks.push(self.foreign()),
                5 => {
                    let s = self.scrut();
                    have_test |= s.has_test();
                    blocks.push(Block::Scrut(s));
                }
                6 if self.opts.invalid => blocks.push(self.bare(false)),
                7 => blocks.push(self.bare(true)),
                _ => blocks.push(self.heading()),
            }
            // Markdown style: usually a blank line between blocks
            if self.rng.chance(2, 3) {
                blocks.push(blank());
                if self.rng.chance(1, 8) {
                    blocks.push(blank());
                }
            }
        }
        if self.opts.need_test && !have_test {
            let mut s = self.scrut();
            while !s.has_test() || s.invalid().is_some() {
                s = self.scrut();
            }
            blocks.push(Block::Scrut(s));
        }
        let mut doc = MdDoc {
            blocks,
            crlf: self.crlf,
            final_newline: !self.rng.chance(1, 8),
        };
        if self.opts.truncate && self.rng.chance(1, 5) {
            let total = doc.rlines().len();
            if total > 1 {
                let keep = self.rng.range(1, total - 1);
                doc = truncate_md(&doc, keep);
            }
        } else if self.opts.truncate && self.rng.chance(1, 12) {
            // the author forgot the closing fence of the last block
            if let Some(b) = doc.blocks.iter_mut().rev().find(|b| !matches!(b, Block::Line { role: Role::Blank, .. })) {
                match b {
                    Block::Scrut(s) => s.terminated = false,
                    Block::Foreign { terminated, .. } => *terminated = false,
                    _ => {}
                }
            }
            // nothing may follow an open block
            while matches!(doc.blocks.last(), Some(Block::Line { role: Role::Blank, .. })) {
                doc.blocks.pop();
            }
        }
        doc
    }
}

pub fn gen_md(rng: &mut Rng, opts: &MdOpts) -> MdDoc {
    let mut g = MdGen {
        rng,
        opts: opts.clone(),
        counter: 0,
        crlf: false,
    };
    let mut doc = g.doc();
    if !doc.final_newline && doc.rlines().last().is_some_and(|l| l.text.is_empty()) {
        // an empty last line without final newline is the same text as no such line with one
        doc.final_newline = true;
    }
    doc
}

/// keep the first `keep` lines; the block that is cut becomes an unterminated block
pub fn truncate_md(doc: &MdDoc, keep: usize) -> MdDoc {
    let mut out = vec![];
    let mut used = 0usize;
    for (i, b) in doc.blocks.iter().enumerate() {
        let mut tmp = vec![];
        b.lines(i, &mut tmp);
        let n = tmp.len();
        if used + n <= keep {
            out.push(b.clone());
            used += n;
            continue;
        }
        let room = keep - used; // lines of this block that survive (< n)
        if room == 0 {
            break;
        }
        match b {
            Block::FrontMatter { lines, defaults, .. } => out.push(Block::FrontMatter {
                lines: lines[..(room - 1).min(lines.len())].to_vec(),
                defaults: defaults.clone(),
                terminated: false,
            }),
            Block::Line { .. } => {}
            Block::Foreign { fence, info, body, .. } => out.push(Block::Foreign {
                fence: *fence,
                info: info.clone(),
                body: body[..(room - 1).min(body.len())].to_vec(),
                terminated: false,
            }),
            Block::Undoc { what, lines } => out.push(Block::Undoc {
                what: what.clone(),
                lines: lines[..room].to_vec(),
            }),
            Block::Scrut(s) => {
                let mut t = s.clone();
                t.terminated = false;
                let mut left = room - 1;
                let take = |v: &mut Vec<String>, left: &mut usize| {
                    let k = v.len().min(*left);
                    v.truncate(k);
                    *left -= k;
                };
                take(&mut t.comments, &mut left);
                take(&mut t.cmd, &mut left);
                let k = t.body.len().min(left);
                t.body.truncate(k);
                out.push(Block::Scrut(t));
            }
        }
        break;
    }
    MdDoc {
        blocks: out,
        crlf: doc.crlf,
        final_newline: doc.final_newline,
    }
}

/// smaller variants of a document: drop a block, then simplify blocks
pub fn shrink_md(doc: &MdDoc) -> Vec<MdDoc> {
    let mut out = vec![];
    let n = doc.blocks.len();
    // halves first (cheap big steps), then single blocks
    if n > 3 {
        out.push(MdDoc {
            blocks: doc.blocks[n / 2..].to_vec(),
            ..doc.clone()
        });
        out.push(MdDoc {
            blocks: doc.blocks[..n / 2].to_vec(),
            ..doc.clone()
        });
    }
    for i in 0..n {
        let mut d = doc.clone();
        d.blocks.remove(i);
        out.push(d);
    }
    if doc.crlf {
        out.push(MdDoc { crlf: false, ..doc.clone() });
    }
    if !doc.final_newline {
        out.push(MdDoc {
            final_newline: true,
            ..doc.clone()
        });
    }
    for i in 0..n {
        let with = |b: Block| {
            let mut d = doc.clone();
            d.blocks[i] = b;
            d
        };
        // close an open construct
        match &doc.blocks[i] {
            Block::Scrut(s) if !s.terminated => {
                let mut t = s.clone();
                t.terminated = true;
                out.push(with(Block::Scrut(t)));
            }
            Block::Foreign {
                fence,
                info,
                body,
                terminated: false,
            } => out.push(with(Block::Foreign {
                fence: *fence,
                info: info.clone(),
                body: body.clone(),
                terminated: true,
            })),
            Block::FrontMatter {
                lines,
                defaults,
                terminated: false,
            } => out.push(with(Block::FrontMatter {
                lines: lines.clone(),
                defaults: defaults.clone(),
                terminated: true,
            })),
            _ => {}
        }
        match &doc.blocks[i] {
            Block::Scrut(s) => {
                if !s.comments.is_empty() {
                    let mut t = s.clone();
                    t.comments.clear();
                    out.push(with(Block::Scrut(t)));
                }
                if s.cfg_text.is_some() {
                    let mut t = s.clone();
                    t.cfg_text = None;
                    t.cfg = Cfg::default();
                    if t.ws == "cfg-trail" {
                        t.ws = String::new();
                    }
                    out.push(with(Block::Scrut(t)));
                }
                if !s.ws.is_empty() {
                    let mut t = s.clone();
                    t.ws = String::new();
                    out.push(with(Block::Scrut(t)));
                }
                if s.body.len() > 1 {
                    let mut t = s.clone();
                    t.body.clear();
                    out.push(with(Block::Scrut(t)));
                }
                if s.cmd.is_empty() && !s.body.is_empty() {
                    // the plainest test instead of content without a command
                    let mut t = s.clone();
                    t.body.clear();
                    t.cmd = vec!["true".into()];
                    out.push(with(Block::Scrut(t)));
                }
                if s.cmd.len() > 1 {
                    let mut t = s.clone();
                    t.cmd.truncate(1);
                    out.push(with(Block::Scrut(t)));
                }
                for j in 0..s.body.len() {
                    let mut t = s.clone();
                    t.body.remove(j);
                    out.push(with(Block::Scrut(t)));
                }
                for j in 0..s.body.len() {
                    if let Body::Exp { class, .. } = &s.body[j] {
                        if class != "plain" {
                            let mut t = s.clone();
                            t.body[j] = Body::Exp {
                                text: "x".into(),
                                kind: Some(("equal".into(), false, false)),
                                class: "plain".into(),
                            };
                            out.push(with(Block::Scrut(t)));
                        }
                    }
                }
                if s.fence > 3 && !s.body.iter().any(|b| matches!(b, Body::Exp { text, .. } if text.starts_with("```"))) {
                    let mut t = s.clone();
                    t.fence = 3;
                    out.push(with(Block::Scrut(t)));
                }
            }
            Block::Foreign {
                fence,
                info,
                body,
                terminated,
            } => {
                for j in 0..body.len() {
                    let mut b2 = body.clone();
                    b2.remove(j);
                    out.push(with(Block::Foreign {
                        fence: *fence,
                        info: info.clone(),
                        body: b2,
                        terminated: *terminated,
                    }));
                }
                if !info.is_empty() && info != "text" {
                    out.push(with(Block::Foreign {
                        fence: *fence,
                        info: "text".into(),
                        body: body.clone(),
                        terminated: *terminated,
                    }));
                }
                if *fence > 3 && !info.is_empty() && !body.iter().any(|l| l.starts_with("```")) {
                    out.push(with(Block::Foreign {
                        fence: 3,
                        info: info.clone(),
                        body: body.clone(),
                        terminated: *terminated,
                    }));
                }
            }
            Block::FrontMatter {
                lines, terminated, ..
            } if !lines.is_empty() && lines[..] != ["shell: bash".to_string()] => {
                // the plainest front-matter; never an empty one (that would be a new feature,
                // and a simplification must not bring in what the document did not have)
                out.push(with(Block::FrontMatter {
                    lines: vec!["shell: bash".into()],
                    defaults: Cfg::default(),
                    terminated: *terminated,
                }));
            }
            Block::Undoc { what, lines } if lines.len() > 1 => {
                for j in 0..lines.len() {
                    let mut l2 = lines.clone();
                    l2.remove(j);
                    out.push(with(Block::Undoc {
                        what: what.clone(),
                        lines: l2,
                    }));
                }
            }
            _ => {}
        }
    }
    out
}

// ---------------------------------------------------------------------------------------------
// Cram documents
// ---------------------------------------------------------------------------------------------

#[derive(Clone, Debug, PartialEq, Serialize, Deserialize)]
pub enum CLine {
    /// `  $ text`
    Cmd(String),
    /// `  > text` while the command is still being read
    Cont(String),
    /// `  text` (the two-space indentation is added by the renderer)
    Exp {
        text: String,
        #[serde(default)]
        class: String,
    },
    /// `  [n]`
    Exit(i32),
    /// `# text` in column 0, anywhere
    Comment(String),
}

#[derive(Clone, Debug, PartialEq, Serialize, Deserialize)]
pub enum CItem {
    /// unindented line; `weird` = not what one would call a title (` $ x`, a single blank)
    Title {
        text: String,
        #[serde(default)]
        weird: bool,
    },
    Blank,
    Comment(String),
    /// a test: first non-comment line is `Cmd`
    Test(Vec<CLine>),
    /// indented lines that belong to no command (error, or ignored)
    Orphan(Vec<String>),
}

#[derive(Clone, Debug, PartialEq, Serialize, Deserialize)]
pub struct CramDoc {
    pub items: Vec<CItem>,
    #[serde(default = "yes")]
    pub final_newline: bool,
    /// line endings: bit (i mod 64) set = line i ends in CRLF; 0 = LF only, all ones = CRLF only
    #[serde(default)]
    pub crlf: u64,
}

impl CItem {
    fn lines(&self, out: &mut Vec<String>) {
        match self {
            CItem::Title { text, .. } => out.push(text.clone()),
            CItem::Blank => out.push(String::new()),
            CItem::Comment(c) => out.push(c.clone()),
            CItem::Test(ls) => {
                for l in ls {
                    match l {
                        CLine::Cmd(c) => out.push(format!("  $ {c}")),
                        CLine::Cont(c) => out.push(format!("  > {c}")),
                        CLine::Exp { text, .. } => out.push(format!("  {text}")),
                        CLine::Exit(n) => out.push(format!("  [{n}]")),
                        CLine::Comment(c) => out.push(c.clone()),
                    }
                }
            }
            CItem::Orphan(ls) => {
                for l in ls {
                    out.push(format!("  {l}"));
                }
            }
        }
    }
    pub fn kind(&self) -> &'static str {
        match self {
            CItem::Title { .. } => "title",
            CItem::Blank => "blank",
            CItem::Comment(_) => "comment",
            CItem::Test(_) => "test",
            CItem::Orphan(_) => "orphan",
        }
    }
    pub fn features(&self) -> Vec<String> {
        match self {
            CItem::Title { weird, .. } => vec![if *weird { "title:weird".into() } else { "title".into() }],
            CItem::Blank => vec!["blank".into()],
            CItem::Comment(_) => vec!["comment".into()],
            CItem::Orphan(_) => vec!["orphan".into()],
            CItem::Test(ls) => {
                let mut f = vec![];
                let exits = ls.iter().filter(|l| matches!(l, CLine::Exit(_))).count();
                if exits > 1 {
                    f.push("test:two-exit-codes".to_string());
                } else if exits == 1 {
                    f.push("test:exit".into());
                }
                if ls.iter().any(|l| matches!(l, CLine::Cont(_))) {
                    f.push("test:cont".into());
                }
                if ls.iter().any(|l| matches!(l, CLine::Comment(_))) {
                    f.push("test:comment".into());
                }
                for l in ls {
                    if let CLine::Exp { class, .. } = l {
                        if !class.is_empty() && class != "plain" {
                            let t = format!("test:exp:{class}");
                            if !f.contains(&t) {
                                f.push(t);
                            }
                        }
                    }
                }
                if f.is_empty() {
                    f.push("test".into());
                }
                f
            }
        }
    }
}

impl CramDoc {
    pub fn lines(&self) -> Vec<String> {
        let mut out = vec![];
        for i in &self.items {
            i.lines(&mut out);
        }
        out
    }
    pub fn line_crlf(&self, i: usize) -> bool {
        (self.crlf >> (i % 64)) & 1 == 1
    }
    pub fn render(&self) -> String {
        let lines = self.lines();
        let mut out = String::new();
        for (i, l) in lines.iter().enumerate() {
            out.push_str(l);
            if i + 1 < lines.len() || self.final_newline {
                out.push_str(if self.line_crlf(i) { "\r\n" } else { "\n" });
            }
        }
        out
    }
    pub fn features(&self) -> Vec<String> {
        let mut f: Vec<String> = self.items.iter().flat_map(|b| b.features()).collect();
        if self.crlf == u64::MAX {
            f.push("crlf".into());
        } else if self.crlf != 0 {
            f.push("crlf-mixed".into());
        }
        if !self.final_newline {
            f.push("no-final-newline".into());
        }
        f.sort();
        f.dedup();
        f
    }
    pub fn kinds(&self) -> Vec<&'static str> {
        self.items.iter().map(|b| b.kind()).collect()
    }
}

pub fn expect_cram(doc: &CramDoc) -> Expected {
    let mut e = Expected::default();
    let mut line_no = 0usize;
    // titles seen since the previous test ended
    let mut titles: Vec<(String, bool)> = vec![];
    for (i, item) in doc.items.iter().enumerate() {
        let mut tmp = vec![];
        item.lines(&mut tmp);
        let first_line = line_no + 1;
        line_no += tmp.len();
        match item {
            CItem::Title { text, weird } => titles.push((text.clone(), *weird)),
            CItem::Blank | CItem::Comment(_) => {}
            CItem::Orphan(_) => {
                e.err_ok.get_or_insert("orphan".into());
            }
            CItem::Test(ls) => {
                let mut shell = vec![];
                let mut exps = vec![];
                let mut exit = None;
                let mut exits = 0;
                let mut dollar = 0;
                for (j, l) in ls.iter().enumerate() {
                    match l {
                        CLine::Cmd(c) => {
                            shell.push(c.clone());
                            dollar = first_line + j;
                        }
                        CLine::Cont(c) => shell.push(c.clone()),
                        CLine::Exp { text, .. } => exps.push((text.clone(), None)),
                        CLine::Exit(n) => {
                            exit = Some(*n);
                            exits += 1;
                        }
                        CLine::Comment(_) => {}
                    }
                }
                if exits > 1 {
                    e.must_err.get_or_insert("two-exit-codes".into());
                }
                let mut title = TitleRule::default();
                match titles.last() {
                    None => {
                        title.allow_prev = true;
                        title.exact.push(String::new());
                    }
                    Some((t, _)) => title.exact.push(t.clone()),
                }
                if titles.iter().any(|(_, w)| *w) {
                    title.relaxed = Some(titles.iter().map(|(t, _)| t.clone()).collect());
                }
                e.tests.push(ExpTest {
                    shell: shell.join("\n"),
                    exps,
                    exit,
                    cfg: Cfg::cram_defaults(),
                    line: dollar,
                    title,
                    block: i,
                });
                titles.clear();
            }
        }
    }
    e
}

/// `[digits]` with a value an exit code can have (i32): read as exit code; longer digit runs
/// are ordinary expectation text
pub fn reads_as_exit_code(text: &str) -> bool {
    text.len() > 2 && text.starts_with('[') && text.ends_with(']') && text[1..text.len() - 1].bytes().all(|b| b.is_ascii_digit()) && text[1..text.len() - 1].parse::<i32>().is_ok()
}

const BIG_BRACKETS: &[&str] = &["[2147483648]", "[4294967296]", "[9999999999]", "[20240131093000]", "[18446744073709551616]", "[99999999999999999999]"];

/// is the item list a faithful description of its rendering? (guards hand-written / shrunk cases)
pub fn cram_wellformed(doc: &CramDoc) -> Result<(), String> {
    {
        let lines = doc.lines();
        for (i, l) in lines.iter().enumerate() {
            let last_open = i + 1 == lines.len() && !doc.final_newline;
            if l.ends_with('\r') && !doc.line_crlf(i) && !last_open {
                return Err("a CR at the end of a line is part of its CRLF ending".into());
            }
            if l.contains('\n') {
                return Err("line with line feed".into());
            }
        }
    }
    let mut prev_open_test = false; // previous item is a test (still open: no blank/title in between)
    for item in &doc.items {
        match item {
            CItem::Title { text, .. } => {
                if text.is_empty() || text.starts_with('#') || text.starts_with("  ") || text.contains('\n') {
                    return Err(format!("not a title line: {text:?}"));
                }
                prev_open_test = false;
            }
            CItem::Blank => prev_open_test = false,
            CItem::Comment(c) => {
                if !c.starts_with('#') {
                    return Err("comment without #".into());
                }
            }
            CItem::Orphan(ls) => {
                if prev_open_test {
                    return Err("orphan lines directly behind a test are its expectations".into());
                }
                if ls.is_empty() || ls.iter().any(|l| l.starts_with("$ ")) {
                    return Err("orphan lines must not contain a command".into());
                }
                prev_open_test = false;
            }
            CItem::Test(ls) => {
                let mut state = 0; // 0 = before cmd, 1 = in command, 2 = in body
                let mut since_cmd = 0;
                for l in ls {
                    match l {
                        CLine::Comment(c) => {
                            if !c.starts_with('#') {
                                return Err("comment without #".into());
                            }
                        }
                        CLine::Cmd(_) => {
                            if state != 0 {
                                return Err("second command inside one test item".into());
                            }
                            state = 1;
                        }
                        CLine::Cont(_) => {
                            if state != 1 {
                                return Err("continuation outside the command".into());
                            }
                        }
                        CLine::Exp { text, .. } => {
                            if state == 0 {
                                return Err("expectation before the command".into());
                            }
                            if text.starts_with("$ ") {
                                return Err("expectation that reads as a command".into());
                            }
                            if state == 1 && text.starts_with("> ") {
                                return Err("expectation that reads as a continuation".into());
                            }
                            // `[n]` look-alikes are exit codes
                            if reads_as_exit_code(text) {
                                return Err("expectation that reads as an exit code".into());
                            }
                            state = 2;
                            since_cmd += 1;
                        }
                        CLine::Exit(_) => {
                            if state == 0 {
                                return Err("exit code before the command".into());
                            }
                            state = 2;
                        }
                    }
                }
                let _ = since_cmd;
                if state == 0 {
                    return Err("test without command".into());
                }
                prev_open_test = true;
            }
        }
    }
    Ok(())
}

pub fn gen_cram(rng: &mut Rng) -> CramDoc {
    let mut items = vec![];
    // the reading of a document does not depend on its line endings
    let crlf: u64 = match rng.below(10) {
        0 | 1 => u64::MAX,
        2 => rng.next_u64() | 1,
        3 => rng.next_u64() & rng.next_u64(),
        _ => 0,
    };
    let n = rng.range(1, 10);
    let mut k = 0usize;
    let mut open_test = false;
    for _ in 0..n {
        k += 1;
        let pick = rng.weighted(&[10, 10, 6, 30, 1]);
        match pick {
            0 => {
                let (text, weird) = match rng.below(10) {
                    0 => (format!(" $ echo one-space {k}"), true),
                    1 => (" ".to_string(), true),
                    2 => (format!(" one space title {k}"), true),
                    3 => (format!("$ echo unindented {k}"), true),
                    4 => (format!("Title {k} (glob)"), false),
                    5 => (format!("Ünï title {k}:"), false),
                    6 => (format!("> title {k}"), true),
                    7 => (format!("[{k}]"), true),
                    _ => (format!("Title {k}"), false),
                };
                items.push(CItem::Title { text, weird });
                open_test = false;
            }
            1 => {
                items.push(CItem::Blank);
                open_test = false;
            }
            2 => {
                items.push(CItem::Comment(match rng.below(3) {
                    0 => "#".into(),
                    1 => format!("#  $ echo commented {k}"),
                    _ => format!("# comment {k}"),
                }));
            }
            3 => {
                let mut ls = vec![];
                let comment = |rng: &mut Rng, ls: &mut Vec<CLine>| {
                    if rng.chance(1, 10) {
                        ls.push(CLine::Comment(format!("# inner comment {}", ls.len())));
                    }
                };
                comment(rng, &mut ls);
                ls.push(CLine::Cmd(match rng.below(5) {
                    0 => format!("echo cmd{k} 'a  b'  "),
                    1 => format!("echo cmd{k} $ x > y"),
                    2 => format!("echo ünï cmd{k}"),
                    _ => format!("echo cmd{k}"),
                }));
                if rng.chance(1, 4) {
                    for j in 0..rng.range(1, 2) {
                        comment(rng, &mut ls);
                        ls.push(CLine::Cont(match rng.below(3) {
                            0 => format!("  indented {j}"),
                            1 => "$ nested".to_string(),
                            _ => format!("cont{j} \\"),
                        }));
                    }
                }
                let nb = *rng.pick(&[0, 1, 1, 2, 2, 3, 4, 5]);
                let mut in_body = false;
                for _ in 0..nb {
                    comment(rng, &mut ls);
                    k += 1;
                    let (text, class): (String, &str) = match rng.below(41) {
                        36 => (format!("items {k} [3]"), "bracket-trail"),
                        37 => (format!("array{k}[0]"), "bracket-trail"),
                        // Cram globs that end in a backslash (a literal one: nothing follows that it could escape)
                        38 => (format!("C:\\temp{k}\\ (glob)"), "glob-bs-end"),
                        39 => ("*\\ (glob)".into(), "glob-bs-end"),
                        40 => (format!("dir{k}\\ (glob?)"), "glob-bs-end"),
                        29 => (format!("[{}] ", k % 3), "bracket-ws"),
                        30 => ("[7]\t".into(), "bracket-ws"),
                        31 => (format!("[-{}]", 1 + k % 3), "bracket-signed"),
                        32 => ("[+2]".into(), "bracket-signed"),
                        33 => (format!(">>> {k} + 1"), "gt-nospace"),
                        34 => (format!(">quoted{k}"), "gt-nospace"),
                        35 => (">".into(), "gt-nospace"),
                        26 => (format!("loading 10%\rloading 100% {k}"), "cr-inside"),
                        27 if crlf == u64::MAX => (format!("done {k}\r"), "cr-end"),
                        27 => (format!("\rstart {k}"), "cr-inside"),
                        28 => (format!("re{k}+ (re)"), "regex"),
                        23 => (format!("int main{k} ()"), "paren-empty"),
                        24 => (format!("f{k} (re) ()"), "paren-empty"),
                        25 => (format!("x{k} (bar)"), "paren"),
                        16 | 17 => (rng.pick(BIG_BRACKETS).to_string(), "big-bracket"),
                        18 if in_body => (format!("> later {k}"), "gt"),
                        0 => (String::new(), "empty"),
                        1 => ("  ".into(), "ws-only"),
                        2 => (" ".into(), "ws-only"),
                        3 => (format!(" lead {k}"), "lead-ws"),
                        4 => (format!("trail {k}  "), "trail-ws"),
                        5 if in_body => (format!("> later {k}"), "gt"),
                        6 => (format!(" $ three spaces {k}"), "dollar-3sp"),
                        7 => (format!("# not a comment {k}"), "hash"),
                        8 => ("[abc]".into(), "bracket"),
                        9 => (format!("foo{k}* (glob)"), "glob"),
                        10 => (format!("re{k}+ (re)"), "regex"),
                        11 => (format!("esc\\x00{k} (esc)"), "escaped"),
                        12 => (format!("opt {k} (?)"), "quant"),
                        13 => (format!("tab\tx {k}"), "tab"),
                        14 => (format!("inner  double  space {k}"), "inner-ws"),
                        15 => (format!("$x not a command {k}"), "plain"),
                        _ => (format!("out {k}"), "plain"),
                    };
                    ls.push(CLine::Exp {
                        text,
                        class: class.into(),
                    });
                    in_body = true;
                }
                if rng.chance(3, 10) {
                    let code = *rng.pick(&[0, 1, 2, 127, 255]);
                    let body_start = ls.iter().position(|l| matches!(l, CLine::Exp { .. }));
                    match body_start {
                        Some(b) if rng.chance(1, 4) && b + 1 < ls.len() => {
                            let at = rng.range(b + 1, ls.len() - 1);
                            ls.insert(at, CLine::Exit(code));
                        }
                        _ if rng.chance(1, 4) => {
                            // exit code directly behind the command, then output that starts with `> `
                            let cmd_end = ls.iter().rposition(|l| matches!(l, CLine::Cmd(_) | CLine::Cont(_))).unwrap_or(0) + 1;
                            ls.insert(cmd_end, CLine::Exit(code));
                            if rng.chance(3, 4) {
                                ls.insert(
                                    cmd_end + 1,
                                    CLine::Exp {
                                        text: format!("> after exit {k}"),
                                        class: "gt-after-exit".into(),
                                    },
                                );
                            }
                        }
                        _ => ls.push(CLine::Exit(code)),
                    }
                    if rng.chance(1, 25) {
                        ls.push(CLine::Exit(9));
                    }
                }
                comment(rng, &mut ls);
                items.push(CItem::Test(ls));
                open_test = true;
            }
            _ => {
                if !open_test {
                    // an expectation or an exit code without a command; now and then directly in
                    // front of whatever comes next (it must not become part of the next test)
                    items.push(CItem::Orphan(vec![if rng.chance(1, 3) { "[3]".to_string() } else { format!("orphan {k}") }]));
                    if !rng.chance(1, 3) {
                        items.push(CItem::Blank);
                    }
                } else {
                    items.push(CItem::Blank);
                    open_test = false;
                }
            }
        }
    }
    CramDoc {
        items,
        final_newline: !rng.chance(1, 8),
        crlf,
    }
}

pub fn shrink_cram(doc: &CramDoc) -> Vec<CramDoc> {
    let mut out = vec![];
    let n = doc.items.len();
    if n > 3 {
        out.push(CramDoc {
            items: doc.items[n / 2..].to_vec(),
            ..doc.clone()
        });
        out.push(CramDoc {
            items: doc.items[..n / 2].to_vec(),
            ..doc.clone()
        });
    }
    for i in 0..n {
        let mut d = doc.clone();
        d.items.remove(i);
        out.push(d);
    }
    if !doc.final_newline {
        out.push(CramDoc {
            final_newline: true,
            ..doc.clone()
        });
    }
    if doc.crlf != 0 {
        out.push(CramDoc { crlf: 0, ..doc.clone() });
        if doc.crlf != u64::MAX {
            out.push(CramDoc {
                crlf: u64::MAX,
                ..doc.clone()
            });
        }
    }
    for i in 0..n {
        if let CItem::Test(ls) = &doc.items[i] {
            for j in 0..ls.len() {
                if matches!(ls[j], CLine::Cmd(_)) {
                    continue;
                }
                let mut l2 = ls.clone();
                l2.remove(j);
                let mut d = doc.clone();
                d.items[i] = CItem::Test(l2);
                out.push(d);
            }
            for j in 0..ls.len() {
                if let CLine::Exp { class, .. } = &ls[j] {
                    if class != "plain" {
                        let mut l2 = ls.clone();
                        l2[j] = CLine::Exp {
                            text: "x".into(),
                            class: "plain".into(),
                        };
                        let mut d = doc.clone();
                        d.items[i] = CItem::Test(l2);
                        out.push(d);
                    }
                }
            }
        }
    }
    // a candidate must still describe its own rendering
    out.retain(|d| cram_wellformed(d).is_ok());
    out
}

/// is the block list a faithful description of its rendering? (guards hand-written / shrunk cases)
pub fn md_wellformed(doc: &MdDoc) -> Result<(), String> {
    let n = doc.blocks.len();
    if !doc.final_newline && doc.rlines().last().is_some_and(|l| l.text.is_empty()) {
        // renders exactly like the document without that line but with a final newline
        return Err("empty last line without final newline".into());
    }
    for (i, b) in doc.blocks.iter().enumerate() {
        match b {
            Block::FrontMatter { lines, .. } => {
                if i != 0 {
                    return Err("front-matter must be the first block".into());
                }
                if lines.iter().any(|l| l == "---" || l.contains('\n')) {
                    return Err("front-matter line closes the front-matter".into());
                }
            }
            Block::Line { text, role } => {
                if text.contains('\n') || text.contains('\r') {
                    return Err("line with line break".into());
                }
                let t = text.trim();
                let starts_letter = t.chars().next().is_some_and(|c| c.is_alphabetic());
                match role {
                    Role::Blank => {
                        if !text.is_empty() {
                            return Err("blank line with content".into());
                        }
                    }
                    Role::Heading { title } => {
                        let rest = t.trim_start_matches('#');
                        let indent = text.len() - text.trim_start_matches(' ').len();
                        if rest.len() == t.len() || !rest.starts_with(' ') || rest.trim_start() != title || title.is_empty() || text.trim_start_matches(' ') != t || indent > 3 {
                            return Err(format!("heading text does not render its title: {text:?}"));
                        }
                    }
                    Role::Para { title } => {
                        let indent = text.len() - text.trim_start_matches(' ').len();
                        if !starts_letter || title != t || text.trim_start_matches(' ') != t || indent > 3 {
                            return Err(format!("paragraph line must start with a letter: {text:?}"));
                        }
                    }
                    Role::NonPara { .. } | Role::ParaLike { .. } => {
                        if starts_letter || t.is_empty() || (t.starts_with("```") && !t.trim_start_matches('`').contains('`')) || (t == "---" && !matches!(role, Role::NonPara { class } if class == "rule-dashes")) || (t.starts_with('#') && t.trim_start_matches('#').starts_with(' ')) {
                            return Err(format!("line would be read as something else: {text:?}"));
                        }
                    }
                }
                if i == 0 && text == "---" {
                    return Err("`---` in the first line is front-matter".into());
                }
                if text == "---" && i > 0 {
                    let behind_ok = matches!(&doc.blocks[i - 1], Block::Line { role: Role::Blank, .. } | Block::Scrut(_) | Block::Foreign { .. })
                        && doc.blocks[..i].iter().any(|b| !matches!(b, Block::Line { role: Role::Blank, .. }));
                    if !behind_ok {
                        return Err("`---` behind text is a setext underline".into());
                    }
                }
            }
            Block::Foreign {
                fence,
                info,
                body,
                terminated,
            } => {
                if *fence < 3 || info.contains('`') || info.trim() == "scrut" || info.starts_with("scrut ") || info.starts_with("scrut{") || info != info.trim() {
                    return Err("foreign fence that is not foreign".into());
                }
                let ticks = "`".repeat(*fence);
                if body.iter().any(|l| l.starts_with(&ticks) || l.contains('\n')) {
                    return Err("foreign body closes its own fence".into());
                }
                if !*terminated && i + 1 != n {
                    // allowed, judged no-crash only
                }
            }
            Block::Scrut(s) => {
                if !(3..=8).contains(&s.fence) {
                    return Err("fence length".into());
                }
                let ticks = "`".repeat(s.fence);
                if s.comments.iter().any(|c| !c.starts_with('#') || c.contains('\n')) {
                    return Err("comment without #".into());
                }
                if let Some(c) = &s.cfg_text {
                    if !c.starts_with('{') || c.contains('\n') || (!c.ends_with('}') && s.invalid() != Some("bad-inline-config")) {
                        return Err("config text must be {...}".into());
                    }
                }
                if s.cmd.iter().any(|c| c.contains('\n') || (c.is_empty() && s.cmd.len() > 1)) {
                    return Err("command line empty or with line break".into());
                }
                let mut in_cmd = true;
                for (j, b) in s.body.iter().enumerate() {
                    if let Body::Exp { text, .. } = b {
                        if text.starts_with(&ticks) || text.contains('\n') {
                            return Err("expectation closes the fence".into());
                        }
                        if text.ends_with('\r') && !doc.crlf {
                            return Err("a CR at the end of a line is part of its CRLF ending".into());
                        }
                        let t = text.trim_start_matches(' ');
                        if t.len() + 3 >= text.len() && t.len() < text.len() && t.starts_with(&ticks) && t.trim_start_matches('`').trim().is_empty() {
                            return Err("indented run of backticks without info text: closing fence in CommonMark".into());
                        }
                        if !s.cmd.is_empty() && in_cmd && text.starts_with("> ") {
                            return Err("expectation that reads as a continuation".into());
                        }
                        if s.cmd.is_empty() && text.starts_with("$ ") {
                            return Err("expectation that reads as a command".into());
                        }
                        if s.cmd.is_empty() && j == 0 && text.starts_with('#') {
                            return Err("expectation that reads as a comment".into());
                        }
                        if reads_as_exit_code(text) {
                            return Err("expectation that reads as an exit code".into());
                        }
                    }
                    in_cmd = false;
                }
            }
            Block::Undoc { lines, .. } => {
                if lines.iter().any(|l| l.contains('\n')) {
                    return Err("line with line break".into());
                }
            }
        }
    }
    Ok(())
}
