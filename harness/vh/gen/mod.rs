pub mod lines;
pub mod exprs;
