pub mod lines;
