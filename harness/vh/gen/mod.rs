pub mod lines;
pub mod exprs;
pub mod docgen;
