pub mod placeholder {}
