//! Seeded generators of expectation expressions (shared by C04 / C08 / C11): character pools, hostile
//! dictionary, regex ASTs, glob token lists, escape token lists.

use crate::oracle::rulematch::*;
use crate::rng::Rng;

pub const LETTERS: &[char] = &['a', 'b', 'c', 'A', 'B', 'x', 'y', 'z', '0', '1', '2'];
pub const PUNCT: &[char] = &[' ', '-', '_', '/', ':', ',', '#', '&', '~', '<', '>', '=', '"', '\'', '%', '@', '!', ';'];
pub const META: &[char] = &['\\', '.', '+', '*', '?', '(', ')', '|', '[', ']', '{', '}', '^', '$'];
/// non-ASCII: 2/3/4-byte, wide, combining, NBSP, zero width space, RTL mark, line separator, private use, unassigned
pub const NONASCII: &[char] = &[
    'é', 'ß', 'Ж', '中', '😀', 'ａ', '\u{301}', '\u{a0}', '\u{200b}', '\u{200f}', '\u{2028}', '\u{e000}', '\u{378}', 'É', 'ж',
];
pub const CONTROLS: &[char] = &['\t', '\r', '\u{1b}', '\u{8}', '\u{0}', '\u{7f}', '\u{85}', '\u{c}', '\u{b}', '\u{7}'];

/// text that collides with scrut's own syntax or internal placeholders
pub const HOSTILE: &[&str] = &[
    "<<<<3>>>>", "<<<<x>>>>", " (glob)", "{name}", "^", "$", "|", "\\", "\\\\", " (escaped)", " (no-eol)", " (?)", " ()", " (equal)",
    "(re)", "a{2,}", "[[]]", "\\_", "{3}", "<<<<", ">>>>", " (esc)", "\\t", "\\x41", "* (glob*)", "$ ", "> ", "[1]",
];

pub fn lit_char(rng: &mut Rng, w: &[u32; 5]) -> char {
    match rng.weighted(w) {
        0 => *rng.pick(LETTERS),
        1 => *rng.pick(PUNCT),
        2 => *rng.pick(META),
        3 => *rng.pick(NONASCII),
        _ => *rng.pick(CONTROLS),
    }
}

/// random text without LF
pub fn rand_text(rng: &mut Rng, max: usize, w: &[u32; 5]) -> String {
    let n = rng.below(max + 1);
    let mut s = String::new();
    for _ in 0..n {
        if rng.chance(1, 12) {
            s.push_str(*rng.pick(HOSTILE));
        } else {
            s.push(lit_char(rng, w));
        }
    }
    s
}

pub fn valid_utf8(b: &[u8]) -> Option<&str> {
    std::str::from_utf8(b).ok()
}

/// one-edit mutants over scalars (valid UTF-8 text)
pub fn edit_text(rng: &mut Rng, s: &str, pool: &[char]) -> String {
    let mut cs: Vec<char> = s.chars().collect();
    match rng.below(4) {
        0 if !cs.is_empty() => {
            cs.remove(rng.below(cs.len()));
        }
        1 => {
            let i = rng.below(cs.len() + 1);
            cs.insert(i, *rng.pick(pool));
        }
        2 if cs.len() >= 2 => {
            let i = rng.below(cs.len() - 1);
            cs.swap(i, i + 1);
        }
        _ if !cs.is_empty() => {
            let i = rng.below(cs.len());
            cs[i] = *rng.pick(pool);
        }
        _ => cs.push(*rng.pick(pool)),
    }
    cs.into_iter().collect()
}

pub fn flip_case(rng: &mut Rng, s: &str) -> Option<String> {
    let cs: Vec<char> = s.chars().collect();
    let idx: Vec<usize> = (0..cs.len()).filter(|i| cs[*i].is_alphabetic() && (cs[*i].is_lowercase() || cs[*i].is_uppercase())).collect();
    if idx.is_empty() {
        return None;
    }
    let i = *rng.pick(&idx);
    let mut out: Vec<char> = cs.clone();
    let flipped: Vec<char> = if cs[i].is_lowercase() { cs[i].to_uppercase().collect() } else { cs[i].to_lowercase().collect() };
    if flipped.len() != 1 || flipped[0] == cs[i] {
        return None;
    }
    out[i] = flipped[0];
    Some(out.into_iter().collect())
}

fn gen_class(rng: &mut Rng) -> Re {
    let neg = rng.chance(1, 3);
    let n = 1 + rng.below(3);
    let mut items = vec![];
    for _ in 0..n {
        let it = match rng.weighted(&[4, 3, 2, 2, 1]) {
            0 => {
                let c = *rng.pick(LETTERS);
                (c, c)
            }
            1 => *rng.pick(&[('a', 'c'), ('0', '2'), ('A', 'B'), ('a', 'z'), ('x', 'z'), ('0', '9')]),
            2 => {
                let c = *rng.pick(&['\\', ']', '[', '^', '-']);
                (c, c)
            }
            3 => {
                let c = *rng.pick(&['.', '*', '+', '(', ')', '|', '$', '?', ' ', '{', '}', ',', ':']);
                (c, c)
            }
            _ => *rng.pick(&[('é', 'é'), ('Ж', 'Я'), ('中', '中'), ('😀', '😀'), ('\u{a0}', '\u{ff}')]),
        };
        items.push(it);
    }
    Re::Class(neg, items)
}

fn gen_rep(rng: &mut Rng) -> Rep {
    match rng.weighted(&[4, 4, 4, 2, 2, 3]) {
        0 => Rep::Star,
        1 => Rep::Plus,
        2 => Rep::Opt,
        3 => Rep::Exact(rng.range(1, 3) as u32),
        4 => {
            let m = rng.below(3) as u32;
            Rep::Range(m, m + rng.range(0, 2) as u32)
        }
        _ => Rep::Open(rng.below(4) as u32),
    }
}

fn gen_atom(rng: &mut Rng, budget: &mut i32, depth: u32) -> Re {
    *budget -= 1;
    match rng.weighted(&[50, 8, 12, if depth < 3 { 10 } else { 0 }, if depth < 3 { 8 } else { 0 }]) {
        0 => Re::Lit(lit_char(rng, &[60, 10, 14, 12, 4])),
        1 => Re::Dot,
        2 => gen_class(rng),
        3 => Re::Group(Box::new(gen_concat(rng, budget, depth + 1, 1))),
        _ => Re::Group(Box::new(gen_alt(rng, budget, depth + 1))),
    }
}

fn gen_item(rng: &mut Rng, budget: &mut i32, depth: u32) -> Re {
    let a = gen_atom(rng, budget, depth);
    if rng.chance(1, 4) {
        *budget -= 1;
        Re::Repeat(Box::new(a), gen_rep(rng))
    } else {
        a
    }
}

fn gen_concat(rng: &mut Rng, budget: &mut i32, depth: u32, min: usize) -> Re {
    let n = rng.range(min, 4);
    let mut v = vec![];
    for _ in 0..n {
        if *budget <= 0 && v.len() >= min {
            break;
        }
        v.push(gen_item(rng, budget, depth));
    }
    if v.len() == 1 && rng.bool() {
        v.pop().unwrap()
    } else {
        Re::Concat(v)
    }
}

fn gen_alt(rng: &mut Rng, budget: &mut i32, depth: u32) -> Re {
    *budget -= 1;
    let n = rng.range(2, 3);
    Re::Alt((0..n).map(|_| gen_concat(rng, budget, depth, 1)).collect())
}

fn lits(s: &str) -> Vec<Re> {
    s.chars().map(Re::Lit).collect()
}

/// one branch with explicit anchors: `^`? body (`\$` literal)? `$`?
fn anchored_branch(rng: &mut Rng, start: bool, end: bool, dollar_lit: bool) -> Re {
    let mut v = vec![];
    if start {
        v.push(Re::Start);
    }
    if rng.chance(1, 10) {
        v.push(Re::Lit('^'));
    }
    match gen_concat(rng, &mut 4, 2, 1) {
        Re::Concat(items) => v.extend(items),
        other => v.push(other),
    }
    if dollar_lit {
        v.push(Re::Lit('$'));
    }
    if end {
        v.push(Re::End);
    }
    Re::Concat(v)
}

/// expressions that write `^` / `$` themselves: leading, trailing, both, around a top-level alternation,
/// a trailing escaped `\$` literal. Read as "the whole line must match the regular expression".
pub fn gen_anchored(rng: &mut Rng) -> Re {
    match rng.weighted(&[30, 30, 20, 10, 10]) {
        0 => {
            let (st, en) = *rng.pick(&[(true, false), (false, true), (true, true)]);
            let d = rng.chance(1, 6);
            anchored_branch(rng, st, en, d)
        }
        // `^foo|bar$`: the anchors belong to the outer branches only
        1 => {
            let n = rng.range(2, 3);
            Re::Alt(
                (0..n)
                    .map(|i| {
                        let st = i == 0 || rng.chance(1, 5);
                        let en = i == n - 1 || rng.chance(1, 5);
                        let d = rng.chance(1, 8);
                        anchored_branch(rng, st, en, d)
                    })
                    .collect(),
            )
        }
        // `^costs 5\$`: starts with an anchor, ends with an escaped dollar literal
        2 => {
            let en = rng.chance(1, 4);
            anchored_branch(rng, true, en, true)
        }
        3 => Re::Alt((0..2).map(|_| anchored_branch(rng, true, true, false)).collect()),
        _ => {
            let d = rng.chance(1, 4);
            let alt = Re::Alt(vec![anchored_branch(rng, true, false, false), anchored_branch(rng, false, true, d)]);
            Re::Concat(vec![Re::Group(Box::new(alt))])
        }
    }
}

pub fn gen_regex(rng: &mut Rng) -> Re {
    let mut budget = rng.range(2, 12) as i32;
    match rng.weighted(&[47, 22, 11, 7, 13]) {
        4 => gen_anchored(rng),
        0 => gen_concat(rng, &mut budget, 0, 0),
        1 => gen_alt(rng, &mut budget, 0),
        // hostile dictionary entry as literal text, possibly after an atom and before a repetition
        2 => {
            let mut v = vec![];
            if rng.bool() {
                v.push(gen_item(rng, &mut 2, 2));
            }
            v.extend(lits(*rng.pick(HOSTILE)));
            if rng.chance(1, 3) {
                v.push(gen_item(rng, &mut 2, 2));
            }
            Re::Concat(v)
        }
        // anchoring shapes: .*x, x.*, .*x.*
        _ => {
            let mut v = vec![];
            let dots = Re::Repeat(Box::new(Re::Dot), Rep::Star);
            if rng.bool() {
                v.push(dots.clone());
            }
            v.push(gen_concat(rng, &mut 3, 1, 1));
            if rng.bool() {
                v.push(dots);
            }
            Re::Concat(v)
        }
    }
}

pub fn gen_glob(rng: &mut Rng, cram: bool) -> Vec<GlobTok> {
    let n = rng.below(9);
    let mut v = vec![];
    for _ in 0..n {
        match rng.weighted(&[55, 15, 22, if cram { 10 } else { 0 }, 6]) {
            0 => {
                let c = lit_char(rng, &[55, 12, 15, 14, 4]);
                v.push(if c == '*' || c == '?' { GlobTok::Lit('a') } else { GlobTok::Lit(c) });
            }
            1 => v.push(GlobTok::One),
            2 => v.push(GlobTok::Many),
            3 => v.push(GlobTok::Esc(*rng.pick(&['*', '?', '\\']))),
            _ => {
                for c in (*rng.pick(HOSTILE)).chars() {
                    v.push(match c {
                        '*' => GlobTok::Many,
                        '?' => GlobTok::One,
                        c => GlobTok::Lit(c),
                    });
                }
            }
        }
    }
    if cram {
        // a literal backslash in front of `*`, `?`, `\` would read as an escape: write it as `\\`
        for i in 0..v.len() {
            if v[i] == GlobTok::Lit('\\') && !glob_unambiguous(&v[i..(i + 2).min(v.len())], true) {
                v[i] = GlobTok::Esc('\\');
            }
        }
    }
    v
}

pub fn gen_esc_tokens(rng: &mut Rng, for_glob: bool) -> Vec<EscTok> {
    let n = rng.below(11);
    let mut v = vec![];
    for _ in 0..n {
        match rng.weighted(&[45, if for_glob { 0 } else { 10 }, 15, 15, 8, if for_glob { 0 } else { 2 }, 5, if for_glob { 12 } else { 0 }]) {
            0 => {
                let c = lit_char(rng, &[55, 15, 10, 15, 5]);
                let c = if c == '\\' || (for_glob && (c == '*' || c == '?')) { 'a' } else { c };
                v.push(EscTok::Lit(c));
            }
            1 => v.push(EscTok::Backslash),
            2 => v.push(EscTok::Named(rng.pick(NAMED).0)),
            3 => {
                let mask = *rng.pick(&[0u8, 0, 1, 2, 3]);
                if for_glob {
                    if rng.chance(1, 3) {
                        // a complete UTF-8 sequence written byte by byte
                        let mut buf = [0u8; 4];
                        for b in rng.pick(NONASCII).encode_utf8(&mut buf).bytes() {
                            v.push(EscTok::Hex(b, mask));
                        }
                    } else {
                        let b = *rng.pick(&[0x00u8, 0x1b, 0x41, 0x7f, 0x20, 0x09, 0x5b, 0x2e]);
                        v.push(EscTok::Hex(b, mask));
                    }
                } else {
                    let b = match rng.below(4) {
                        0 => rng.byte(),
                        1 => *rng.pick(&[0x00u8, 0x1b, 0x7f, 0x80, 0xff, 0xc3, 0x5c, 0x09, 0x4a, 0xab, 0xcd, 0xef]),
                        2 => 0x80 | rng.byte(),
                        _ => rng.byte() & 0x7f,
                    };
                    v.push(EscTok::Hex(if b == b'\n' { 0x0b } else { b }, mask));
                }
            }
            4 => {
                let b = rng.below(64) as u8;
                v.push(EscTok::Oct(if b == b'\n' { 0x0b } else { b }));
            }
            5 => v.push(EscTok::Unknown(*rng.pick(&['q', 'n', 'z', '1', '(', ' ', 'u', 'é']))),
            6 => {
                for c in (*rng.pick(HOSTILE)).chars() {
                    if c != '\\' && !(for_glob && (c == '*' || c == '?')) {
                        v.push(EscTok::Lit(c));
                    }
                }
            }
            _ => v.push(EscTok::Lit(*rng.pick(&['*', '?', '*']))),
        }
    }
    v
}

