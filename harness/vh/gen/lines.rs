//! Output-line classes used by the end-to-end generators (C09e, C19e ...).

use crate::rng::Rng;

pub const CLASSES: &[&str] = &[
    "plain", "blank", "ws-only", "lead-ws", "trail-ws", "bracket", "dollar", "gt", "suffix", "fence", "hash", "ctrl",
    "invalid-utf8", "backslash", "cr", "unicode", "yamlish", "paren",
];

/// a line (without LF) of the given class
pub fn line_of(rng: &mut Rng, class: &str) -> Vec<u8> {
    let pick = |rng: &mut Rng, items: &[&[u8]]| -> Vec<u8> { items[rng.below(items.len())].to_vec() };
    match class {
        "plain" => pick(rng, &[b"hello world", b"foo", b"bar baz", b"x=1", b"a", b"OK"]),
        "blank" => vec![],
        "ws-only" => pick(rng, &[b" ", b"  ", b"    "]),
        "lead-ws" => pick(rng, &[b"  indented", b" x", b"    four"]),
        "trail-ws" => pick(rng, &[b"trailing ", b"x  ", b"two words   "]),
        "bracket" => pick(rng, &[b"[1]", b"[0]", b"[255]", b"[42]", b"[1] ", b" [1]", b"[x]"]),
        // command look-alikes, also together with text that needs escaping (both mechanisms at once)
        "dollar" => pick(rng, &[b"$ x", b"$ echo hi", b"$", b"$ ", b"$x", b"$ grep '\\d+' \x1b[1mlog\x1b[0m", b"$ a\tb", b"$ c:\\dir\x07", b"$ \xff"]),
        "gt" => pick(rng, &[b"> x", b"> ", b">", b">x", b"> \x1b[32mready\x1b[0m", b"> q\tz", b"> back\\slash\x01", b"> \xfe\xff"]),
        "suffix" => pick(
            rng,
            &[
                b"foo (glob)", b"foo (?)", b"foo ()", b"foo (escaped)", b"foo (no-eol)", b"foo (regex+)", b"a (equal)", b"b (*)",
                b"c (+)", b"x (esc)", b"y (re)", b"z (gl*)", b" (glob)", b"foo (glob) (glob)",
            ],
        ),
        "fence" => pick(rng, &[b"```", b"````", b"```scrut", b"`````x", b"``", b"`", b"```` ```scrut", b"  ```sh", b" ```", b"   ````", b"    ```"]),
        "hash" => pick(rng, &[b"# comment", b"#", b"## h2", b"#!shebang"]),
        "ctrl" => pick(rng, &[b"a\x00b", b"\x1b[1mX\x1b[0m", b"\x7f", b"\xc2\x85", b"\x01", b"a\tb", b"\x0c", b"bell\x07"]),
        "invalid-utf8" => pick(rng, &[b"\xff\xfe", b"ab\xc3", b"\x80", b"x\xe2\x82", b"\xf8\x88\x80\x80\x80"]),
        "backslash" => pick(rng, &[b"C:\\temp", b"a\\tb", b"\\", b"\\\\", b"a\\\x01b", b"\\x41", b"C:\\temp\tx", b"\\t\t", b"end\\"]),
        "cr" => pick(rng, &[b"a\rb", b"line\r", b"\r", b"x\r\r"]),
        "unicode" => pick(
            rng,
            &[
                "h\u{e9}llo w\u{f6}rld".as_bytes(),
                "\u{65e5}\u{672c}\u{8a9e}".as_bytes(),
                "\u{1f600} ok".as_bytes(),
                "nbsp\u{a0}".as_bytes(),
                "zw\u{200b}sp".as_bytes(),
                "rtl\u{202e}x".as_bytes(),
            ],
        ),
        "yamlish" => pick(rng, &[b"---", b"key: value", b"- item", b"{a: 1}", b"..."]),
        "paren" => pick(rng, &[b"(x)", b"f(x) (y)", b"(", b")", b"a (b", b"a b)"]),
        _ => b"?".to_vec(),
    }
}

/// classify a line (first class that fits, most specific first) — used for signatures
pub fn classify(line: &[u8]) -> &'static str {
    if line.is_empty() {
        return "blank";
    }
    let s = std::str::from_utf8(line);
    let Ok(s) = s else {
        return "invalid-utf8";
    };
    if line.contains(&b'\\') {
        return "backslash";
    }
    if line.contains(&b'\r') {
        return "cr";
    }
    if s.chars().any(|c| c.is_control() || ('\u{80}'..='\u{9f}').contains(&c)) {
        return "ctrl";
    }
    if s.chars().all(|c| c == ' ') {
        return "ws-only";
    }
    if s.starts_with('$') {
        return "dollar";
    }
    if s.starts_with('>') {
        return "gt";
    }
    if s.starts_with('[') && s.trim_end().ends_with(']') {
        return "bracket";
    }
    if s.starts_with('`') {
        return "fence";
    }
    if s.starts_with('#') {
        return "hash";
    }
    if s.ends_with(')') && s.contains(" (") {
        return "suffix";
    }
    if s.contains('(') || s.contains(')') {
        return "paren";
    }
    if !s.is_ascii() {
        return "unicode";
    }
    if s.starts_with(' ') {
        return "lead-ws";
    }
    if s.ends_with(' ') {
        return "trail-ws";
    }
    if s == "---" || s.contains(": ") || s.starts_with("- ") || s.starts_with('{') || s == "..." {
        return "yamlish";
    }
    "plain"
}

/// a payload: 0..max lines biased to hostile classes, with or without final newline
pub fn payload(rng: &mut Rng, max_lines: usize) -> (Vec<Vec<u8>>, bool) {
    let n = rng.below(max_lines + 1);
    let focus = CLASSES[rng.below(CLASSES.len())];
    let lines: Vec<Vec<u8>> = (0..n)
        .map(|_| {
            let c = match rng.below(10) {
                0..=3 => "plain",
                4..=6 => focus,
                _ => CLASSES[rng.below(CLASSES.len())],
            };
            line_of(rng, c)
        })
        .collect();
    let fin = lines.is_empty() || !rng.chance(1, 4);
    (lines, fin)
}
