//! /verif/KNOWN_FINDINGS.txt: `finding:` entries suppress (and announce) exactly
//! the listed signatures; `fixed:` entries suppress nothing.

use std::path::Path;

#[derive(Clone, Debug)]
pub struct Finding {
    pub property: String,
    pub sig: String,
    pub text: String,
}

#[derive(Clone, Debug, Default)]
pub struct Known {
    pub findings: Vec<Finding>,
    pub fixed: Vec<Finding>,
}

/// `*` matches any run of characters
pub fn glob_match(pat: &str, text: &str) -> bool {
    let p: Vec<char> = pat.chars().collect();
    let t: Vec<char> = text.chars().collect();
    let (mut pi, mut ti) = (0usize, 0usize);
    let (mut star, mut mark) = (None, 0usize);
    while ti < t.len() {
        if pi < p.len() && p[pi] != '*' && p[pi] == t[ti] {
            pi += 1;
            ti += 1;
        } else if pi < p.len() && p[pi] == '*' {
            star = Some(pi);
            mark = ti;
            pi += 1;
        } else if let Some(s) = star {
            pi = s + 1;
            mark += 1;
            ti = mark;
        } else {
            return false;
        }
    }
    while pi < p.len() && p[pi] == '*' {
        pi += 1;
    }
    pi == p.len()
}

impl Known {
    pub fn load(path: &Path) -> Known {
        let mut k = Known::default();
        let Ok(text) = std::fs::read_to_string(path) else {
            return k;
        };
        for line in text.lines() {
            let line = line.trim();
            let (is_finding, rest) = if let Some(r) = line.strip_prefix("finding:") {
                (true, r)
            } else if let Some(r) = line.strip_prefix("fixed:") {
                (false, r)
            } else {
                continue;
            };
            let (head, text) = match rest.split_once("::") {
                Some((h, t)) => (h.trim(), t.trim()),
                None => (rest.trim(), ""),
            };
            let mut property = String::new();
            let mut sig = String::new();
            for tok in head.split_whitespace() {
                if let Some(v) = tok.strip_prefix("property=") {
                    property = v.to_string();
                } else if let Some(v) = tok.strip_prefix("sig=") {
                    sig = v.to_string();
                }
            }
            let f = Finding {
                property,
                sig,
                text: text.to_string(),
            };
            if is_finding {
                k.findings.push(f);
            } else {
                k.fixed.push(f);
            }
        }
        k
    }

    pub fn matching(&self, property: &str, sig: &str) -> Option<&Finding> {
        self.findings
            .iter()
            .find(|f| f.property == property && !f.sig.is_empty() && glob_match(&f.sig, sig))
    }
}
