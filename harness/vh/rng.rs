//! SplitMix64 stream and small helpers. Deterministic, no external crate.

#[derive(Clone, Debug)]
pub struct Rng(pub u64);

pub fn mix(mut z: u64) -> u64 {
    z = z.wrapping_add(0x9E3779B97F4A7C15);
    z = (z ^ (z >> 30)).wrapping_mul(0xBF58476D1CE4E5B9);
    z = (z ^ (z >> 27)).wrapping_mul(0x94D049BB133111EB);
    z ^ (z >> 31)
}

pub fn hash_bytes(data: &[u8]) -> u64 {
    // FNV-1a 64 followed by a mix
    let mut h: u64 = 0xcbf29ce484222325;
    for b in data {
        h ^= *b as u64;
        h = h.wrapping_mul(0x100000001b3);
    }
    mix(h)
}

pub fn hash_str(s: &str) -> u64 {
    hash_bytes(s.as_bytes())
}

/// seed of case k of property id under the run seed
pub fn case_seed(seed: u64, id: &str, k: u64) -> u64 {
    mix(seed ^ mix(hash_str(id) ^ mix(k)))
}

impl Rng {
    pub fn new(seed: u64) -> Self {
        Rng(seed)
    }
    pub fn next_u64(&mut self) -> u64 {
        self.0 = self.0.wrapping_add(0x9E3779B97F4A7C15);
        let mut z = self.0;
        z = (z ^ (z >> 30)).wrapping_mul(0xBF58476D1CE4E5B9);
        z = (z ^ (z >> 27)).wrapping_mul(0x94D049BB133111EB);
        z ^ (z >> 31)
    }
    /// uniform in 0..n (n > 0)
    pub fn below(&mut self, n: usize) -> usize {
        debug_assert!(n > 0);
        (self.next_u64() % (n as u64)) as usize
    }
    /// uniform in lo..=hi
    pub fn range(&mut self, lo: usize, hi: usize) -> usize {
        lo + self.below(hi - lo + 1)
    }
    pub fn chance(&mut self, num: u32, den: u32) -> bool {
        (self.next_u64() % den as u64) < num as u64
    }
    pub fn bool(&mut self) -> bool {
        self.next_u64() & 1 == 1
    }
    pub fn pick<'a, T>(&mut self, items: &'a [T]) -> &'a T {
        &items[self.below(items.len())]
    }
    pub fn byte(&mut self) -> u8 {
        (self.next_u64() & 0xff) as u8
    }
    pub fn shuffle<T>(&mut self, items: &mut [T]) {
        for i in (1..items.len()).rev() {
            let j = self.below(i + 1);
            items.swap(i, j);
        }
    }
    pub fn fork(&mut self) -> Rng {
        Rng(self.next_u64())
    }
    /// index chosen by weights
    pub fn weighted(&mut self, weights: &[u32]) -> usize {
        let total: u32 = weights.iter().sum();
        let mut x = (self.next_u64() % total as u64) as u32;
        for (i, w) in weights.iter().enumerate() {
            if x < *w {
                return i;
            }
            x -= *w;
        }
        weights.len() - 1
    }
}

pub fn hex(data: &[u8]) -> String {
    let mut s = String::with_capacity(data.len() * 2);
    for b in data {
        s.push_str(&format!("{:02x}", b));
    }
    s
}

pub fn unhex(s: &str) -> Vec<u8> {
    let b = s.as_bytes();
    (0..b.len() / 2)
        .map(|i| u8::from_str_radix(std::str::from_utf8(&b[2 * i..2 * i + 2]).unwrap(), 16).unwrap())
        .collect()
}

/// serde helper: Vec<u8> as hex string
pub mod hexbytes {
    use serde::Deserialize;
    use serde::Deserializer;
    use serde::Serializer;
    pub fn serialize<S: Serializer>(v: &Vec<u8>, s: S) -> Result<S::Ok, S::Error> {
        s.serialize_str(&super::hex(v))
    }
    pub fn deserialize<'de, D: Deserializer<'de>>(d: D) -> Result<Vec<u8>, D::Error> {
        let s = String::deserialize(d)?;
        Ok(super::unhex(&s))
    }
}

/// printable rendering of bytes for samples / details
pub fn show(data: &[u8]) -> String {
    let mut s = String::new();
    for &b in data {
        match b {
            b'\n' => s.push_str("\\n"),
            b'\r' => s.push_str("\\r"),
            b'\t' => s.push_str("\\t"),
            b'\\' => s.push_str("\\\\"),
            0x20..=0x7e => s.push(b as char),
            _ => s.push_str(&format!("\\x{:02x}", b)),
        }
    }
    s
}
