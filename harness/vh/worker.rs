//! Worker process: runs a range of cases of one monitor and reports JSON lines.

use std::collections::BTreeMap;
use std::collections::HashSet;
use std::io::Write;

use serde_json::json;
use serde_json::Value;

use crate::core::DynMonitor;
use crate::core::Env;
use crate::core::Verdict;

const MAX_SHAPES_PER_CHUNK: usize = 200_000;

pub fn run_range(m: &dyn DynMonitor, env: &Env, from: u64, to: u64, trace: bool) {
    let stdout = std::io::stdout();
    let mut held = 0u64;
    let mut violated = 0u64;
    let mut inconclusive = 0u64;
    let mut oos = 0u64;
    let mut nontrivial = 0u64;
    let mut shapes: HashSet<u64> = HashSet::new();
    let mut buckets: BTreeMap<String, u64> = BTreeMap::new();
    let mut seen_sigs: HashSet<String> = HashSet::new();
    let mut samples_sent = 0;
    let mut near_miss_sent = 0;
    for k in from..to {
        if trace {
            let mut o = stdout.lock();
            let _ = writeln!(o, "{}", json!({"t":"b","k":k}));
            let _ = o.flush();
        }
        // ask for a sample on the first cases of the chunk; the decision to
        // keep it is taken after the verdict is known
        let want_sample = samples_sent < 2 || near_miss_sent < 1;
        let r = m.run_case(env, k, want_sample);
        for b in &r.checked.buckets {
            *buckets.entry(b.clone()).or_insert(0) += 1;
        }
        if r.checked.nontrivial {
            nontrivial += 1;
            if shapes.len() < MAX_SHAPES_PER_CHUNK {
                shapes.insert(r.checked.shape);
            }
        }
        match &r.checked.verdict {
            Verdict::Held => {
                held += 1;
                if want_sample && r.checked.nontrivial && !r.sample.is_null() {
                    let near = r.checked.buckets.iter().any(|b| b.contains("near"));
                    if (near && near_miss_sent < 1) || samples_sent < 2 {
                        if near {
                            near_miss_sent += 1;
                        }
                        samples_sent += 1;
                        let mut o = stdout.lock();
                        let _ = writeln!(
                            o,
                            "{}",
                            json!({"t":"s","k":k,"buckets":r.checked.buckets,"sample":r.sample})
                        );
                    }
                }
            }
            Verdict::Violated { sig, detail } => {
                violated += 1;
                if seen_sigs.insert(sig.clone()) {
                    let mut o = stdout.lock();
                    let _ = writeln!(
                        o,
                        "{}",
                        json!({"t":"v","k":k,"sig":sig,"detail":detail,"case":r.case,"sample":r.sample})
                    );
                    let _ = o.flush();
                }
            }
            Verdict::Inconclusive(reason) => {
                inconclusive += 1;
                let mut o = stdout.lock();
                let _ = writeln!(o, "{}", json!({"t":"i","k":k,"reason":reason,"case":r.case}));
            }
            Verdict::OutOfScope(_) => {
                oos += 1;
            }
        }
        if trace {
            let mut o = stdout.lock();
            let _ = writeln!(o, "{}", json!({"t":"e","k":k}));
            let _ = o.flush();
        }
    }
    let shapes: Vec<Value> = shapes.into_iter().map(|s| json!(s)).collect();
    let mut o = stdout.lock();
    let _ = writeln!(
        o,
        "{}",
        json!({"t":"sum","from":from,"to":to,"held":held,"violated":violated,"inconclusive":inconclusive,
               "oos":oos,"nontrivial":nontrivial,"shapes":shapes,"buckets":buckets})
    );
    let _ = o.flush();
}
