//! vh: runtime-monitoring harness for facebookincubator/scrut.
//!
//!   vh check <ID> <quick|thorough> [--replay <file>]
//!   vh worker <ID> <tier> --seed S (--from a --to b [--trace] | --dump-case k | --replay f | --sidecar)

#![allow(dead_code)]
mod core;
mod e2e;
mod gen;
mod known;
mod memcheck;
mod miri;
mod mon;
mod oracle;
mod rng;
mod supervisor;
mod worker;

use std::path::PathBuf;
use std::sync::Arc;

use serde_json::json;
use serde_json::Value;

use crate::core::DynMonitor;
use crate::core::Env;
use crate::core::Tier;
use crate::core::Verdict;

fn arg_after(args: &[String], flag: &str) -> Option<String> {
    args.iter().position(|a| a == flag).and_then(|i| args.get(i + 1).cloned())
}

fn main() {
    let args: Vec<String> = std::env::args().collect();
    if args.len() < 3 {
        eprintln!("usage: vh check <ID> <quick|thorough> [--replay <file>]");
        std::process::exit(2);
    }
    let mode = args[1].as_str();
    let id = args[2].as_str();
    let Some(m): Option<Arc<dyn DynMonitor>> = mon::by_id(id) else {
        eprintln!("unknown property id {id}");
        std::process::exit(2);
    };
    let tier_arg = args.get(3).map(|s| s.as_str()).unwrap_or("quick");
    let tier = if tier_arg.starts_with("--") {
        Tier::Quick
    } else {
        match Tier::parse(tier_arg) {
            Some(t) => t,
            None => {
                eprintln!("unknown tier {tier_arg}");
                std::process::exit(2);
            }
        }
    };
    match mode {
        "check" => {
            if let Ok(t) = std::env::var("VERIF_TIER") {
                if !t.is_empty() && !tier_arg.starts_with("--") && Tier::parse(&t) != Some(tier) {
                    eprintln!("VERIF_TIER={t} disagrees with the tier argument {tier_arg}");
                    std::process::exit(2);
                }
            }
            let seed = std::env::var("VERIF_SEED")
                .ok()
                .and_then(|s| s.trim().parse::<i64>().ok())
                .map(|v| v as u64)
                .unwrap_or(1);
            let scrut_bin = PathBuf::from(
                std::env::var("VH_SCRUT_BIN").unwrap_or_else(|_| "/verif/target/scrut-bin/debug/scrut".into()),
            );
            let out = if let Some(f) = arg_after(&args, "--replay") {
                supervisor::replay(m, tier, seed, scrut_bin, &PathBuf::from(f))
            } else {
                supervisor::check(m, tier, seed, scrut_bin)
            };
            std::process::exit(out.exit);
        }
        "worker" => {
            core::install_panic_hook();
            let seed = arg_after(&args, "--seed").and_then(|s| s.parse::<u64>().ok()).unwrap_or(1);
            let env = Env {
                tier,
                seed,
                scrut_bin: PathBuf::from(std::env::var("VH_SCRUT_BIN").unwrap_or_default()),
                scratch: PathBuf::from(std::env::var("VH_SCRATCH").unwrap_or_else(|_| "/tmp/vh-manual".into())),
            };
            let _ = std::fs::create_dir_all(&env.scratch);
            if let Some(k) = arg_after(&args, "--dump-case") {
                let k: u64 = k.parse().unwrap_or(0);
                println!("{}", m.dump_case(&env, k));
            } else if let Some(f) = arg_after(&args, "--replay") {
                let spec: Value = std::fs::read_to_string(&f)
                    .ok()
                    .and_then(|s| serde_json::from_str(&s).ok())
                    .unwrap_or(Value::Null);
                let case = if spec.get("case").is_some() { spec["case"].clone() } else { spec };
                match m.replay(&env, &case) {
                    Ok(r) => {
                        let v = match &r.checked.verdict {
                            Verdict::Held => json!({"t":"r","verdict":"held","buckets":r.checked.buckets}),
                            Verdict::Violated { sig, detail } => {
                                json!({"t":"r","verdict":"violated","sig":sig,"detail":detail})
                            }
                            Verdict::Inconclusive(r) => json!({"t":"r","verdict":"inconclusive","reason":r}),
                            Verdict::OutOfScope(r) => json!({"t":"r","verdict":"out-of-scope","reason":r}),
                        };
                        println!("{v}");
                    }
                    Err(e) => {
                        println!("{}", json!({"t":"r","verdict":"inconclusive","reason":e}));
                    }
                }
            } else if args.iter().any(|a| a == "--sidecar") {
                for r in m.sidecar(&env) {
                    println!(
                        "{}",
                        json!({"t":"sc","label":r.label,"observed":r.observed,"note":r.note,
                               "violations": r.violations.iter().map(|(s,d,w)| json!([s,d,w])).collect::<Vec<_>>(),
                               "inconclusive": r.inconclusive})
                    );
                }
            } else {
                let from = arg_after(&args, "--from").and_then(|s| s.parse::<u64>().ok()).unwrap_or(0);
                let to = arg_after(&args, "--to").and_then(|s| s.parse::<u64>().ok()).unwrap_or(0);
                let trace = args.iter().any(|a| a == "--trace");
                worker::run_range(m.as_ref(), &env, from, to, trace);
            }
        }
        _ => {
            eprintln!("unknown mode {mode}");
            std::process::exit(2);
        }
    }
}
