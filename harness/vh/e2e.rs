//! End-to-end driver: runs the freshly built `scrut` binary in a sealed environment.
