//! End-to-end driver: runs the freshly built `scrut` binary in a sealed environment.
//!
//! A `Sandbox` is a private directory `<worker scratch>/<name>/` with
//!   docs/   generated test documents (the cwd of scrut unless stated otherwise)
//!   tmp/    the TMPDIR of the scrut process (scrut creates its work directories here)
//!   log     marker log: test commands append their unique ids here (outside the work directory)
//!   trace   JSONL written by the cfg-guarded hooks (SCRUT_VERIF_TRACE)
//!   payload/ files that test commands `cat`

#![allow(dead_code)]

use std::io::Read;
use std::os::unix::process::CommandExt;
use std::os::unix::process::ExitStatusExt;
use std::path::Path;
use std::path::PathBuf;
use std::process::Command;
use std::process::Stdio;
use std::time::Duration;
use std::time::Instant;

use serde_json::Value;

use crate::core::Env;

pub struct Sandbox {
    pub root: PathBuf,
    pub docs: PathBuf,
    pub tmp: PathBuf,
    pub log: PathBuf,
    pub trace: PathBuf,
    pub payload: PathBuf,
}

impl Sandbox {
    pub fn new(env: &Env, name: &str) -> Sandbox {
        let root = env.scratch.join(name);
        let _ = std::fs::remove_dir_all(&root);
        let sb = Sandbox {
            docs: root.join("docs"),
            tmp: root.join("tmp"),
            log: root.join("log"),
            trace: root.join("trace"),
            payload: root.join("payload"),
            root,
        };
        for d in [&sb.docs, &sb.tmp, &sb.payload] {
            let _ = std::fs::create_dir_all(d);
        }
        sb
    }

    /// write a file below docs/ (sub directories are created)
    pub fn write_doc(&self, rel: &str, content: &[u8]) -> PathBuf {
        let p = self.docs.join(rel);
        if let Some(parent) = p.parent() {
            let _ = std::fs::create_dir_all(parent);
        }
        std::fs::write(&p, content).expect("write document");
        p
    }

    pub fn write_payload(&self, name: &str, content: &[u8]) -> PathBuf {
        let p = self.payload.join(name);
        std::fs::write(&p, content).expect("write payload");
        p
    }

    /// ids appended by the test commands, in order
    pub fn markers(&self) -> Vec<String> {
        std::fs::read_to_string(&self.log)
            .unwrap_or_default()
            .lines()
            .map(|l| l.trim().to_string())
            .filter(|l| !l.is_empty())
            .collect()
    }

    /// the shell snippet that appends `id` to the marker log
    pub fn mark(&self, id: &str) -> String {
        format!("echo {id} >> {}", self.log.display())
    }

    /// names directly below TMPDIR
    pub fn tmp_listing(&self) -> Vec<String> {
        let mut v: Vec<String> = std::fs::read_dir(&self.tmp)
            .map(|d| d.filter_map(|e| e.ok()).map(|e| e.file_name().to_string_lossy().to_string()).collect())
            .unwrap_or_default();
        v.sort();
        v
    }

    /// everything below TMPDIR, relative paths
    pub fn tmp_tree(&self) -> Vec<String> {
        let mut out = vec![];
        fn walk(base: &Path, dir: &Path, out: &mut Vec<String>) {
            if let Ok(rd) = std::fs::read_dir(dir) {
                for e in rd.filter_map(|e| e.ok()) {
                    let p = e.path();
                    out.push(p.strip_prefix(base).unwrap_or(&p).display().to_string());
                    if p.is_dir() && !p.is_symlink() {
                        walk(base, &p, out);
                    }
                }
            }
        }
        walk(&self.tmp, &self.tmp, &mut out);
        out.sort();
        out
    }

    pub fn trace_events(&self) -> Vec<Value> {
        std::fs::read_to_string(&self.trace)
            .unwrap_or_default()
            .lines()
            .filter_map(|l| serde_json::from_str::<Value>(l).ok())
            .collect()
    }

    pub fn cleanup(&self) {
        // make everything removable (tests may chmod)
        let _ = Command::new("chmod").arg("-R").arg("u+rwx").arg(&self.root).output();
        let _ = std::fs::remove_dir_all(&self.root);
    }
}

impl Drop for Sandbox {
    fn drop(&mut self) {
        self.cleanup();
    }
}

#[derive(Debug, Clone)]
pub struct Run {
    /// exit code (None when killed by a signal or by the watchdog)
    pub code: Option<i32>,
    pub signal: Option<i32>,
    pub stdout: Vec<u8>,
    pub stderr: Vec<u8>,
    pub wall: Duration,
    pub watchdog_fired: bool,
    /// process group of the scrut process (children the tests left behind are still in it)
    pub pgid: i32,
}

impl Run {
    /// kill whatever is left of the process group (sleepers of timed-out tests, detached children)
    pub fn kill_group(&self) {
        if self.pgid > 1 {
            unsafe {
                // only when the group still has members: once it is empty its id can be given to an unrelated
                // process (pid_max is 32768 here and many checks run side by side)
                if libc::kill(-self.pgid, 0) == 0 {
                    libc::kill(-self.pgid, libc::SIGKILL);
                }
            }
        }
    }

    pub fn stdout_str(&self) -> String {
        String::from_utf8_lossy(&self.stdout).to_string()
    }
    pub fn stderr_str(&self) -> String {
        String::from_utf8_lossy(&self.stderr).to_string()
    }
    /// parsed `-r json` output: the array of outcomes
    pub fn json(&self) -> Result<Vec<Value>, String> {
        let v: Value = serde_json::from_slice(&self.stdout)
            .map_err(|e| format!("stdout is not JSON ({e}): {}", String::from_utf8_lossy(&self.stdout).chars().take(300).collect::<String>()))?;
        v.as_array().cloned().ok_or_else(|| "JSON is not an array".to_string())
    }
}

pub struct ScrutCmd<'a> {
    pub args: Vec<String>,
    pub cwd: PathBuf,
    pub watchdog: Duration,
    pub extra_env: Vec<(String, String)>,
    pub stdin: Option<Vec<u8>>,
    pub sb: &'a Sandbox,
    pub wrapper: Vec<String>,
}

impl<'a> ScrutCmd<'a> {
    pub fn new(sb: &'a Sandbox, args: &[&str]) -> Self {
        ScrutCmd {
            args: args.iter().map(|s| s.to_string()).collect(),
            cwd: sb.docs.clone(),
            watchdog: Duration::from_secs(60),
            extra_env: vec![],
            stdin: None,
            sb,
            wrapper: vec![],
        }
    }
    pub fn arg(mut self, a: impl Into<String>) -> Self {
        self.args.push(a.into());
        self
    }
    pub fn watchdog(mut self, d: Duration) -> Self {
        self.watchdog = d;
        self
    }
    pub fn env(mut self, k: &str, v: &str) -> Self {
        self.extra_env.push((k.into(), v.into()));
        self
    }
    pub fn cwd(mut self, p: &Path) -> Self {
        self.cwd = p.to_path_buf();
        self
    }
    /// prefix command (e.g. valgrind ...)
    pub fn wrapper(mut self, w: &[&str]) -> Self {
        self.wrapper = w.iter().map(|s| s.to_string()).collect();
        self
    }

    pub fn run(self, env: &Env) -> Run {
        let (prog, pre): (PathBuf, Vec<String>) = if self.wrapper.is_empty() {
            (env.scrut_bin.clone(), vec![])
        } else {
            let mut pre = self.wrapper[1..].to_vec();
            pre.push(env.scrut_bin.display().to_string());
            (PathBuf::from(&self.wrapper[0]), pre)
        };
        let mut cmd = Command::new(prog);
        cmd.args(pre)
            .args(&self.args)
            .current_dir(&self.cwd)
            .env_clear()
            .env("PATH", "/usr/local/sbin:/usr/local/bin:/usr/sbin:/usr/bin:/sbin:/bin")
            .env("HOME", &self.sb.root)
            .env("TMPDIR", &self.sb.tmp)
            .env("SCRUT_VERIF_TRACE", &self.sb.trace)
            .env("VH_LOG", &self.sb.log)
            .env("NO_COLOR", "1")
            .stdin(if self.stdin.is_some() { Stdio::piped() } else { Stdio::null() })
            .stdout(Stdio::piped())
            .stderr(Stdio::piped());
        for (k, v) in &self.extra_env {
            cmd.env(k, v);
        }
        // own process group: the watchdog can kill scrut and everything it started
        unsafe {
            cmd.pre_exec(|| {
                libc::setpgid(0, 0);
                Ok(())
            });
        }
        let start = Instant::now();
        let mut child = match cmd.spawn() {
            Ok(c) => c,
            Err(e) => {
                return Run {
                    code: None,
                    signal: None,
                    stdout: vec![],
                    stderr: format!("spawn failed: {e}").into_bytes(),
                    wall: Duration::ZERO,
                    watchdog_fired: true,
                    pgid: 0,
                }
            }
        };
        if let Some(data) = self.stdin {
            if let Some(mut si) = child.stdin.take() {
                let _ = std::io::Write::write_all(&mut si, &data);
            }
        }
        let pid = child.id() as i32;
        let mut so = child.stdout.take().unwrap();
        let mut se = child.stderr.take().unwrap();
        let t1 = std::thread::spawn(move || {
            let mut b = vec![];
            let _ = so.read_to_end(&mut b);
            b
        });
        let t2 = std::thread::spawn(move || {
            let mut b = vec![];
            let _ = se.read_to_end(&mut b);
            b
        });
        let mut fired = false;
        let status = loop {
            match child.try_wait() {
                Ok(Some(s)) => break Some(s),
                Ok(None) => {}
                Err(_) => break None,
            }
            if start.elapsed() > self.watchdog {
                fired = true;
                unsafe {
                    libc::kill(-pid, libc::SIGKILL);
                }
                break child.wait().ok();
            }
            std::thread::sleep(Duration::from_millis(5));
        };
        let wall = start.elapsed();
        // a surviving grandchild may hold the pipes open: do not wait for EOF forever
        let stdout = join_with_deadline(t1, pid);
        let stderr = join_with_deadline(t2, pid);
        Run {
            code: status.and_then(|s| s.code()),
            signal: status.and_then(|s| s.signal()),
            stdout,
            stderr,
            wall,
            watchdog_fired: fired,
            pgid: pid,
        }
    }
}

fn join_with_deadline(t: std::thread::JoinHandle<Vec<u8>>, pgid: i32) -> Vec<u8> {
    let start = Instant::now();
    while !t.is_finished() {
        if start.elapsed() > Duration::from_secs(15) {
            // pipe kept open by a descendant; kill the group to get EOF
            unsafe {
                libc::kill(-pgid, libc::SIGKILL);
            }
        }
        if start.elapsed() > Duration::from_secs(20) {
            return vec![];
        }
        std::thread::sleep(Duration::from_millis(5));
    }
    t.join().unwrap_or_default()
}

/// per-test result kind from the JSON report: "success" or the error kind
pub fn result_kind(outcome: &Value) -> String {
    let r = &outcome["result"];
    if let Some(k) = r["kind"].as_str() {
        return k.to_string();
    }
    if let Some(s) = r.as_str() {
        return s.to_string();
    }
    "?".to_string()
}

/// shell-quote for bash (single quotes)
pub fn sh_quote(s: &str) -> String {
    format!("'{}'", s.replace('\'', "'\\''"))
}
