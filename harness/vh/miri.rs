//! Miri sidecar runner: interprets /verif/harness-miri (crate `vm`, linking scrut from /repo) under Miri.

use std::process::Command;

use serde_json::json;

use crate::core::SidecarReport;

fn miri_cmd(args: &[String]) -> Command {
    let mut c = Command::new("cargo");
    c.arg("+nightly")
        .arg("miri")
        .arg("run")
        .arg("--offline")
        .arg("--manifest-path")
        .arg("/verif/harness-miri/Cargo.toml")
        .arg("--")
        .args(args)
        .current_dir("/verif/harness-miri")
        .env("MIRIFLAGS", "-Zmiri-disable-isolation")
        .env("CARGO_NET_OFFLINE", "true")
        .env("CARGO_TERM_COLOR", "never");
    c
}

/// run `shards` interpreted processes of `workload` with `ops` operations each
pub fn run_miri(id: &str, workload: &str, shards: u64, ops: u64) -> SidecarReport {
    let mut rep = SidecarReport {
        label: format!("miri:{workload}"),
        ..Default::default()
    };
    let _ = std::fs::copy("/repo/Cargo.lock", "/verif/harness-miri/Cargo.lock");
    // build once (also proves the toolchain is usable)
    match miri_cmd(&["noop".into()]).output() {
        Ok(o) if String::from_utf8_lossy(&o.stdout).contains("MIRI-OK") => {}
        Ok(o) => {
            rep.inconclusive = Some(format!(
                "miri build/run failed: {}",
                String::from_utf8_lossy(&o.stderr).lines().rev().take(5).collect::<Vec<_>>().join(" | ")
            ));
            return rep;
        }
        Err(e) => {
            rep.inconclusive = Some(format!("cannot start cargo miri: {e}"));
            return rep;
        }
    }
    let handles: Vec<_> = (0..shards)
        .map(|s| {
            let w = workload.to_string();
            std::thread::spawn(move || miri_cmd(&[w, s.to_string(), ops.to_string()]).output())
        })
        .collect();
    let mut ok_lines = vec![];
    for (s, h) in handles.into_iter().enumerate() {
        match h.join() {
            Ok(Ok(o)) => {
                let out = String::from_utf8_lossy(&o.stdout).to_string();
                let err = String::from_utf8_lossy(&o.stderr).to_string();
                if let Some(l) = out.lines().find(|l| l.starts_with("MIRI-OK")) {
                    rep.observed += ops;
                    ok_lines.push(l.to_string());
                } else if let Some(l) = out.lines().find(|l| l.starts_with("MONITOR-VIOLATION")) {
                    rep.violations.push((
                        format!("{id}/miri/monitor-invariant"),
                        l.to_string(),
                        json!({"workload": workload, "shard": s, "ops": ops}),
                    ));
                } else if err.contains("Undefined Behavior") || err.contains("panicked at") {
                    let first = err
                        .lines()
                        .find(|l| l.contains("Undefined Behavior") || l.contains("panicked at"))
                        .unwrap_or("")
                        .to_string();
                    let in_scrut = err.contains("/repo/src/") || err.contains("scrut::");
                    let kind = if err.contains("Undefined Behavior") { "undefined-behaviour" } else { "panic" };
                    if in_scrut {
                        rep.violations.push((
                            format!("{id}/miri/{kind}"),
                            format!("{first} ... {}", err.lines().filter(|l| l.contains("/repo/src/")).take(3).collect::<Vec<_>>().join(" | ")),
                            json!({"workload": workload, "shard": s, "ops": ops}),
                        ));
                    } else {
                        rep.note.push_str(&format!("shard {s}: {kind} outside scrut: {first}; "));
                    }
                } else {
                    rep.inconclusive = Some(format!("shard {s}: no result line; stderr tail: {}", err.lines().rev().take(3).collect::<Vec<_>>().join(" | ")));
                }
            }
            _ => rep.inconclusive = Some(format!("shard {s}: could not run")),
        }
    }
    rep.note.push_str(&ok_lines.join("; "));
    rep
}
