import unicodedata, subprocess, sys
def ranges(pred):
    out=[]; start=None
    for cp in range(0x110000):
        ok = not (0xD800 <= cp <= 0xDFFF) and pred(cp)
        if ok and start is None: start=cp
        if not ok and start is not None:
            out.append((start,cp-1)); start=None
    if start is not None: out.append((start,0x10FFFF))
    return out
cat=lambda cp: unicodedata.category(chr(cp))
cc=ranges(lambda c: cat(c)=='Cc'); cf=ranges(lambda c: cat(c)=='Cf'); cn=ranges(lambda c: cat(c)=='Cn'); co=ranges(lambda c: cat(c)=='Co')
cf_list=[c for a,b in cf for c in range(a,b+1)]
# age via perl (Present_In 7.0): the crate under test carries a Unicode 7.0/8.0 era table
perl = subprocess.run(['perl','-e','for my $l (<STDIN>) { chomp $l; my $c=chr(hex($l)); print "$l\n" unless $c =~ /\\p{Present_In: 7.0}/ }'],
    input="\n".join("%X"%c for c in cf_list)+"\n", capture_output=True, text=True, check=True)
late=set(int(x,16) for x in perl.stdout.split())
perlver = subprocess.run(['perl','-MUnicode::UCD','-e','print Unicode::UCD::UnicodeVersion()'],capture_output=True,text=True).stdout
late_r=[]; 
for c in sorted(late):
    if late_r and late_r[-1][1]==c-1: late_r[-1]=(late_r[-1][0],c)
    else: late_r.append((c,c))
def emit(name, rs, doc):
    s="/// %s\npub const %s: &[(u32, u32)] = &[\n" % (doc,name)
    line="   "
    for a,b in rs:
        item=" (0x%04X, 0x%04X)," % (a,b)
        if len(line)+len(item)>110: s+=line+"\n"; line="   "
        line+=item
    if line.strip(): s+=line+"\n"
    return s+"];\n\n"
n=lambda rs: sum(b-a+1 for a,b in rs)
out = """//! Unicode general-category tables for the C11 printable oracle (Cc, Cf, Cn, Co) as sorted inclusive ranges.
//!
//! GENERATED ONCE at authoring time, committed, never regenerated at run time.
//!   source : CPython %s `unicodedata` (unidata_version = %s); surrogates U+D800..U+DFFF are left out
//!            (they cannot occur in a Rust `str`)
//!   ages   : `CF_AFTER_7_0` = Cf code points for which Perl (Unicode %s) says `\\P{Present_In: 7.0}`
//!   script : /verif/notes/gen_unicode_tables.py <output file> (authoring-time only; not part of the harness)
//!
//! Deliberately NOT derived from the `unicode_categories` crate (the code under test uses it) and not from
//! Rust's `char` methods.
//!
//! Version-skew note. scrut's `unicode_categories` 0.1.1 carries tables of the Unicode 7/8 era, this table is
//! Unicode %s. A code point that is *assigned* here but did not exist for the crate is not judged:
//!   * the Cn clause is raised only for code points that are Cn (unassigned / noncharacter) in THIS table; such a
//!     code point is unassigned in every earlier Unicode version as well, so no version of the crate can know it;
//!   * the Cf clause is not raised for `CF_AFTER_7_0` (format characters added after Unicode 7.0; 8.0 added none);
//!     they are counted in the bucket `skew:cf-after-7.0` instead;
//!   * Cc is stable since Unicode 1.1 (U+0000..U+001F, U+007F..U+009F).
//!
//! counts: Cc=%d Cf=%d Cn=%d Co=%d Cf-after-7.0=%d

pub const UNIDATA_VERSION: &str = "%s";

""" % (sys.version.split()[0], unicodedata.unidata_version, perlver, unicodedata.unidata_version, n(cc),n(cf),n(cn),n(co),n(late_r), unicodedata.unidata_version)
out+=emit("CC",cc,"general category Cc (control)")
out+=emit("CF",cf,"general category Cf (format)")
out+=emit("CN",cn,"general category Cn (unassigned, including noncharacters), surrogates excluded")
out+=emit("CO",co,"general category Co (private use)")
out+=emit("CF_AFTER_7_0",late_r,"Cf code points first assigned after Unicode 7.0 (not judged: version skew, see module docs)")
out+="""fn in_ranges(table: &[(u32, u32)], cp: u32) -> bool {
    let (mut lo, mut hi) = (0usize, table.len());
    while lo < hi {
        let mid = (lo + hi) / 2;
        let (a, b) = table[mid];
        if cp < a {
            hi = mid;
        } else if cp > b {
            lo = mid + 1;
        } else {
            return true;
        }
    }
    false
}

pub fn is_cc(c: char) -> bool {
    in_ranges(CC, c as u32)
}
pub fn is_cf(c: char) -> bool {
    in_ranges(CF, c as u32)
}
pub fn is_cn(c: char) -> bool {
    in_ranges(CN, c as u32)
}
pub fn is_co(c: char) -> bool {
    in_ranges(CO, c as u32)
}
pub fn is_cf_after_7_0(c: char) -> bool {
    in_ranges(CF_AFTER_7_0, c as u32)
}
"""
open(sys.argv[1],'w').write(out)
print(n(cc),n(cf),n(cn),n(co),late_r, len(cn))
